#!/bin/sh
# run every check of a tier sequentially: ./run_all.sh quick|thorough [seed]
tier="${1:-quick}"; seed="${2:-0}"
cd "$(dirname "$0")" || exit 2
rc=0
for p in C01 C02 C03 C04 C05 C06 C07 C08 C09 C10 C11 C12 C13 C14 C15 C16 C17; do
  out=$(VERIF_SEED=$seed ./check $p --tier $tier 2>&1); r=$?
  echo "$out" | grep -E "^(VIOLATION|INCONCLUSIVE|C[0-9]+ )" | cut -c1-260
  [ $r -ne 0 ] && rc=1
done
exit $rc
