#!/usr/bin/env python3
"""Print a markdown table of what the committed evidence files say each check observed (used for DESIGN.md section 9.2)."""
import glob, json, os
here = os.path.dirname(os.path.dirname(os.path.abspath(__file__)))
print("| check | tier/seed | evaluations | distinct non-trivial | known-finding hits | selected observations | wall s |")
print("|---|---|---|---|---|---|---|")
for f in sorted(glob.glob(os.path.join(here, "evidence", "C*.json"))):
    e = json.load(open(f)); c = e["coverage"]
    obs = c.get("observed", {})
    keys = [k for k in obs if k.startswith("max_") or k in ("states_compared", "solves", "bisimulations", "pairs", "dicts", "blocks", "lines", "prune_exits",
                                                           "histories", "files_written", "boards", "names_parsed", "k_runs", "freq_tiles", "boundary_cases",
                                                           "in_scope", "tie_states", "exact_checked", "solves_in_scope", "calls_direct", "value_form_solves", "removed", "concurrent_solves", "concurrent_searches",
                                                           "batch_runs_in_threads", "xproc_processes", "run_games_logs_checked", "games_with_exact_rewards")]
    sel = ", ".join("%s=%s" % (k, (round(obs[k], 3) if isinstance(obs[k], float) else obs[k])) for k in sorted(keys)[:12])
    mc = c.get("monitor_counters", {})
    env = "debug-workers=%s, -O workers=%s, warnings-as-errors workers=%s, solves with flag as int=%s" % (
        mc.get("env.debug_loglevel_workers", 0), mc.get("env.optimized_interpreter_workers", 0), mc.get("env.warnings_as_errors_workers", 0), mc.get("solve.flag_given_as_int", 0))
    print("| %s | %s/%s | %s | %s | %s | %s; %s | %s |" % (e["property_id"], e["tier"], e["seed"], c["evaluations"], c["distinct_nontrivial"],
                                                      c.get("known_finding_hits") or "-", sel, env, e["wall_s"]))
