#!/bin/sh
# tools/eval_controls.sh : negative controls.  Each controls/*.diff is a property-PRESERVING change; applied to a scratch worktree of
# /repo HEAD, the repository's tests must pass and NO check of the quick tier may raise an alarm (exit 0 everywhere).
here="$(cd "$(dirname "$0")/.." && pwd)"
rc=0
for patch in "$here"/controls/*.diff; do
  name=$(basename "$patch" .diff)
  wt="$(mktemp -d /tmp/ctlrun-XXXXXX)"; rmdir "$wt"
  git -C /repo worktree add -q --detach "$wt" HEAD || exit 2
  if ! git -C "$wt" apply "$patch"; then echo "$name: patch does not apply"; rc=1; git -C /repo worktree remove --force "$wt"; continue; fi
  t=$(cd "$wt" && /venv/bin/python -m pytest -q -p no:cacheprovider --timeout=900 2>&1 | tail -1)
  alarms=""
  for p in C01 C02 C03 C04 C05 C06 C07 C08 C09 C10 C11 C12 C13 C14 C15 C16 C17; do
    out=$(cd "$here" && VERIF_REPO="$wt" ./check $p --tier quick 2>&1); r=$?
    [ $r -ne 0 ] && alarms="$alarms $p(rc=$r)" && echo "$out" | grep -E "^(VIOLATION|INCONCL)|^  " | head -4 | cut -c1-220
  done
  echo "CONTROL $name: tests: $t ; alarms:${alarms:- none}"
  [ -n "$alarms" ] && rc=1
  git -C /repo worktree remove --force "$wt" 2>/dev/null; rm -rf "$wt"
done
exit $rc
