#!/bin/sh
# tools/eval_all.sh <PID-dir under /tmp/mut> <checks comma list> : evaluate mutants 1..3 of a sub-agent worktree
d="$1"; checks="$2"
for n in 1 2 3; do
  [ -f "$d/mutants/$n/patch.diff" ] || continue
  echo "--- $d mutant $n"
  "$(dirname "$0")/eval_mutant.sh" "$d/mutants/$n/patch.diff" "$d/mutants/$n/demo.py" "$checks" quick 2>&1
done
