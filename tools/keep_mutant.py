#!/usr/bin/env python3
"""tools/keep_mutant.py <src mutant dir> <seeded id> <property> <checks comma list>
Copies patch.diff / demo.py / README.md into /verif/seeded/<id>/, re-confirms the change in a scratch worktree
(tests pass, demo 0 clean / 1 patched) and runs the listed checks against the patched copy; writes meta.json."""
import json, os, re, shutil, subprocess, sys
src, sid, prop, checks = sys.argv[1:5]
here = os.path.dirname(os.path.dirname(os.path.abspath(__file__)))
dst = os.path.join(here, "seeded", sid)
os.makedirs(dst, exist_ok=True)
for f in ("patch.diff", "demo.py", "README.md"):
    if os.path.exists(os.path.join(src, f)) and os.path.abspath(src) != os.path.abspath(dst):
        shutil.copy(os.path.join(src, f), os.path.join(dst, f))
out = subprocess.run([os.path.join(here, "tools", "eval_mutant.sh"), os.path.join(dst, "patch.diff"), os.path.join(dst, "demo.py"), checks, "quick"],
                     capture_output=True, text=True).stdout
base = subprocess.run(["git", "-C", "/repo", "log", "-1", "--format=%h"], capture_output=True, text=True).stdout.strip()
meta = {"id": sid, "base_commit": base, "breaks_property": prop, "source": "independent sub-agent given only the property text and a scratch worktree" if "revert" not in sid else "revert of a fix: commit in /repo (the original defect)",
        "needs_to_manifest": "", "ran": "tools/eval_mutant.sh seeded/%s/patch.diff seeded/%s/demo.py %s quick  (scratch git worktree of /repo HEAD, patch applied there, VERIF_REPO pointed at it; worktree removed afterwards)" % (sid, sid, checks),
        "confirmed": {}, "checks": {}}
readme = os.path.join(dst, "README.md")
if os.path.exists(readme):
    meta["needs_to_manifest"] = open(readme).read().strip()[:1500]
for line in out.splitlines():
    m = re.match(r"(demo_clean_rc|demo_patched_rc|patch_applies)=(.*)", line)
    if m:
        meta["confirmed"][m.group(1)] = m.group(2)
    if line.startswith("tests:"):
        meta["confirmed"]["tests"] = line[6:].strip()
    m = re.match(r"check (C\d+) rc=(\d+): (\d+) VIOLATION lines; (.*)", line)
    if m:
        meta["checks"][m.group(1)] = {"exit": int(m.group(2)), "violation_lines_printed": int(m.group(3)), "summary": m.group(4)[:300],
                                      "caught": int(m.group(2)) == 1 and int(m.group(3)) > 0}
json.dump(meta, open(os.path.join(dst, "meta.json"), "w"), indent=1)
print(sid, meta["confirmed"], {k: v["caught"] for k, v in meta["checks"].items()})
