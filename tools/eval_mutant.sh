#!/bin/sh
# tools/eval_mutant.sh <patch.diff> <demo.py|-> <PID> [tier]  : apply the patch to a scratch worktree of /repo HEAD (never to /repo),
# run the 57 tests, the demonstration (clean and patched) and the property's check against the patched copy; remove the worktree.
patch="$(readlink -f "$1")"; demo="$2"; [ "$demo" != "-" ] && demo="$(readlink -f "$2")"; pid="$3"; tier="${4:-quick}"
here="$(cd "$(dirname "$0")/.." && pwd)"
wt="$(mktemp -d /tmp/mutrun-XXXXXX)"; rmdir "$wt"
base="${MUT_BASE:-HEAD}"
git -C /repo worktree add -q --detach "$wt" HEAD || exit 2
cleanup() { git -C /repo worktree remove --force "$wt" 2>/dev/null; rm -rf "$wt"; }
trap cleanup EXIT
if ! git -C "$wt" apply --check "$patch" 2>/dev/null && [ "$base" != "HEAD" ]; then
  # the patch was written against an earlier repository commit (a later fix: commit touched the same lines): use that base
  git -C /repo worktree remove --force "$wt"; git -C /repo worktree add -q --detach "$wt" "$base" || exit 2
  echo "base=$base (patch does not apply to HEAD)"
fi
if [ "$demo" != "-" ]; then
  mkdir -p "$wt/mutants/x"; cp "$demo" "$wt/mutants/x/demo.py"
  (cd "$wt" && /venv/bin/python -B mutants/x/demo.py >/dev/null 2>&1); echo "demo_clean_rc=$?"
fi
git -C "$wt" apply "$patch" || { echo "patch_applies=no"; exit 2; }
echo "patch_applies=yes"
t=$(cd "$wt" && /venv/bin/python -m pytest -q -p no:cacheprovider --timeout=900 2>&1 | tail -1); echo "tests: $t"
if [ "$demo" != "-" ]; then
  (cd "$wt" && /venv/bin/python -B mutants/x/demo.py >/dev/null 2>&1); echo "demo_patched_rc=$?"
fi
for p in $(echo "$pid" | tr ',' ' '); do
  out=$(cd "$here" && VERIF_REPO="$wt" timeout 1500 ./check "$p" --tier "$tier" ${MUT_SEED:+--seed $MUT_SEED} 2>&1); rc=$?
  echo "check $p rc=$rc: $(echo "$out" | grep -c '^VIOLATION') VIOLATION lines; $(echo "$out" | tail -1 | cut -c1-200)"
  echo "$out" | grep -A1 '^VIOLATION' | grep '^  ' | sort | uniq -c | sort -rn | head -3 | cut -c1-220
done
