#!/usr/bin/env python3
"""tools/refresh_design_92.py : replace DESIGN.md section 9.2's table by what the committed evidence files say now."""
import os, re, subprocess
here = os.path.dirname(os.path.dirname(os.path.abspath(__file__)))
table = subprocess.run([os.path.join(here, "tools", "summarise_evidence.py")], capture_output=True, text=True).stdout
p = os.path.join(here, "DESIGN.md")
s = open(p).read()
a = s.index("### 9.2 ")
b = s.index("### 9.3 ")
head = ("### 9.2 What the monitors observe on the unchanged tree (quick tier; generated from evidence/*.json by tools/refresh_design_92.py)\n\n"
        "`evaluations` = conclusive cases (held + known), `distinct non-trivial` by each check's own rule, `max_err_over_band` = largest observed error "
        "divided by the sound tolerance (never above 1 on the unchanged tree), `max_threads_active` / `concurrent_solves` = what the THREADS class "
        "actually overlapped, worker counts = how many worker processes ran under each configuration variation.\n\n")
open(p, "w").write(s[:a] + head + table + "\n" + s[b:])
print("section 9.2 refreshed")
