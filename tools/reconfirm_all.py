#!/usr/bin/env python3
"""tools/reconfirm_all.py [jobs]: re-run every seeded change against the CURRENT checks (quick tier of the checks recorded in its
meta.json), each in its own scratch worktree, and write seeded/RECONFIRM.md.  Exit 1 if a change that was caught is no longer caught."""
import concurrent.futures, glob, json, os, re, subprocess, sys, time
here = os.path.dirname(os.path.dirname(os.path.abspath(__file__)))
jobs = int(sys.argv[1]) if len(sys.argv) > 1 else 3


def one(d):
    m = json.load(open(os.path.join(d, "meta.json")))
    checks = ",".join(m["checks"].keys())
    out = subprocess.run([os.path.join(here, "tools", "eval_mutant.sh"), os.path.join(d, "patch.diff"), os.path.join(d, "demo.py"), checks, "quick"],
                         capture_output=True, text=True, env=dict(os.environ, MUT_BASE=m.get("base_commit", "HEAD"))).stdout
    res = {}
    counts = {}
    for line in out.splitlines():
        mm = re.match(r"check (C\d+) rc=(\d+): (\d+) VIOLATION", line)
        if mm:
            res[mm.group(1)] = int(mm.group(2)) == 1 and int(mm.group(3)) > 0
            nv = re.search(r"'violated': (\d+)", line)
            counts[mm.group(1)] = int(nv.group(1)) if nv else 0
    tests = [l for l in out.splitlines() if l.startswith("tests:")]
    return m["id"], m["checks"], res, (tests[0] if tests else "?") + " ; violating cases: " + str(counts)


def main():
    dirs = sorted(glob.glob(os.path.join(here, "seeded", "*", "")))
    t0 = time.time()
    lines, bad = [], 0
    with concurrent.futures.ThreadPoolExecutor(jobs) as ex:
        for sid, before, now, tests in ex.map(one, dirs):
            for c, info in before.items():
                ok = now.get(c)
                flag = "caught" if ok else ("NOT caught" if ok is False else "not run")
                if info["caught"] and not ok:
                    bad += 1
                    flag += "  <-- REGRESSION"
                lines.append("| %s | %s | %s | %s |" % (sid, c, flag, tests))
            print(sid, now, tests.split(";")[-1], flush=True)
    with open(os.path.join(here, "seeded", "RECONFIRM.md"), "w") as f:
        f.write("# Re-confirmation of all seeded changes against the current checks\n\n%d changes, %d regressions, %.0f s.\n\n| id | check | result | repo tests on the patched tree |\n|---|---|---|---|\n" % (len(dirs), bad, time.time() - t0))
        f.write("\n".join(lines) + "\n")
    print("regressions:", bad)
    return 1 if bad else 0


if __name__ == "__main__":
    sys.exit(main())
