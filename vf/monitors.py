"""Runtime monitors attached from the harness to the real code of the repository (DESIGN 1).

M-REV   every reverse_dfs / reverse_transition_list call compared online with an independent BFS
M-ALIAS caller's description deep-compared around every StochasticGame.solve (return and exception)
M-PRUNE live transition lists inspected at the exit of the conditioning step
M-STEP  sys.monitoring JUMP step meter with a logical budget (+ sweep diagnosis on overrun)
M-FS    audit-hook recorder of file-system writes
M-RUN   recorder around conditionalrewards.run_games

All monitors only record (into MON.events) - they never change what the monitored call returns,
except M-STEP which aborts a solve that exceeds its logical budget with StepBudgetExceeded.
"""
import copy
import os
import sys
import functools
from . import bootstrap

bootstrap.repo_on_path()


class StepBudgetExceeded(BaseException):
    """Raised inside the solver by the step meter; BaseException so that `except ValueError`
    / `except Exception` in the code under test cannot swallow it."""

    def __init__(self, steps, where=None):
        super().__init__("step budget exceeded after %d backward jumps" % steps)
        self.steps = steps
        self.where = where
        self.diag = None


class Mon:
    def __init__(self):
        self.counters = {}
        self.events = {}
        self.installed = False
        self.flags = {"alias": True, "prune": True, "rev": True}
        # step meter
        self.steps = 0
        self.limit = None
        self.metering = False
        # fs
        self.fs_on = False
        self.fs_log = []
        # prune monitor state
        self.prune_ctx = None
        self.last_prune = None
        # run monitor
        self.runs = []

    def count(self, name, k=1):
        self.counters[name] = self.counters.get(name, 0) + k

    def event(self, kind, rec, cap=200):
        lst = self.events.setdefault(kind, [])
        if len(lst) < cap:
            lst.append(rec)
        self.count("events." + kind)

    def drain(self, kind):
        return self.events.pop(kind, [])


MON = Mon()
_mods = {}


def mods():
    return _mods


# ----------------------------------------------------------------------------- M-REV

def _ref_back_reach(transition_list, final_states):
    """Independent iterative backward BFS straight from the arguments."""
    n = len(transition_list)
    pred = [[] for _ in range(n)]
    for u, trs in enumerate(transition_list):
        for tr in trs:
            v = tr[1]
            pred[v].append(u)
    finals = set(final_states)
    seen = set(finals)
    frontier = list(finals)
    while frontier:
        nxt = []
        for v in frontier:
            for u in pred[v]:
                if u not in seen:
                    seen.add(u)
                    nxt.append(u)
        frontier = nxt
    return sorted(seen - finals), pred


def _small(tl, cap=40):
    return tl if len(tl) <= cap else {"n": len(tl), "head": tl[:10]}


def _wrap_reverse_dfs(orig):
    @functools.wraps(orig)
    def reverse_dfs_monitored(transition_list, final_states):
        if not MON.flags["rev"]:
            return orig(transition_list, final_states)
        was = MON.metering
        try:
            res = orig(transition_list, final_states)
        except StepBudgetExceeded:
            raise
        except BaseException as e:
            MON.metering = False
            MON.count("rev.dfs_calls")
            MON.event("rev", {"fn": "reverse_dfs", "problem": "raised " + type(e).__name__ + ": " + str(e)[:200],
                              "n": len(transition_list), "transition_list": _small(transition_list),
                              "final_states": list(final_states)[:50]})
            MON.metering = was
            raise
        MON.metering = False
        try:
            MON.count("rev.dfs_calls")
            try:
                exp, _ = _ref_back_reach(transition_list, final_states)
            except Exception:
                MON.count("rev.ref_failed")   # malformed input: not a case for this property
                return res
            if not (isinstance(res, list) and res == exp):
                prob = "result differs from backward BFS"
                if isinstance(res, list) and len(set(res)) != len(res):
                    prob = "duplicates in result"
                elif isinstance(res, list) and sorted(res) == exp:
                    prob = "not sorted ascending"
                MON.event("rev", {"fn": "reverse_dfs", "problem": prob, "n": len(transition_list),
                                  "transition_list": _small(transition_list), "final_states": list(final_states)[:50],
                                  "got": res[:60] if isinstance(res, list) else repr(res)[:200], "expected": exp[:60]})
        finally:
            MON.metering = was
        return res
    reverse_dfs_monitored.__wrapped_by_verif__ = True
    return reverse_dfs_monitored


def _wrap_reverse_tl(orig):
    @functools.wraps(orig)
    def reverse_transition_list_monitored(transition_list):
        res = orig(transition_list)
        if not MON.flags["rev"]:
            return res
        was = MON.metering
        MON.metering = False
        try:
            MON.count("rev.tl_calls")
            n = len(transition_list)
            try:
                exp = {v: [] for v in range(n)}
                bad = False
                for u, trs in enumerate(transition_list):
                    for tr in trs:
                        exp[tr[1]].append(u)
            except Exception:
                MON.count("rev.ref_failed")
                return res
            ok = isinstance(res, dict) and set(res.keys()) == set(range(n)) and \
                all(sorted(res[v]) == sorted(exp[v]) for v in range(n))
            if not ok:
                MON.event("rev", {"fn": "reverse_transition_list", "problem": "table differs from edge multiset",
                                  "n": n, "transition_list": _small(transition_list),
                                  "got": repr(res)[:300]})
        finally:
            MON.metering = was
        return res
    return reverse_transition_list_monitored


# ----------------------------------------------------------------------------- M-ALIAS

def same_typed(a, b):
    """Equal AND of the same kinds throughout (a Fraction replaced by an equal float is a change); sets compare as sets."""
    if type(a) is not type(b):
        return False
    if isinstance(a, (list, tuple)):
        return len(a) == len(b) and all(same_typed(x, y) for x, y in zip(a, b))
    if isinstance(a, dict):
        return list(a.keys()) == list(b.keys()) and all(same_typed(a[k], b[k]) for k in a)
    if isinstance(a, float) and a != a:
        return b != b
    return a == b


def _snap(sg):
    return copy.deepcopy((sg.rewards, sg.players, sg.transition_list, sg.final_states))


def _wrap_solve(orig):
    @functools.wraps(orig)
    def solve_monitored(self, *args, **kwargs):
        if not MON.flags["alias"]:
            return orig(self, *args, **kwargs)
        was = MON.metering
        MON.metering = False
        try:
            before = _snap(self)
        except Exception:
            before = None
        MON.metering = was
        MON.count("alias.solves")
        raised = None
        try:
            return orig(self, *args, **kwargs)
        except BaseException as e:
            raised = e
            raise
        finally:
            if before is not None and not isinstance(raised, StepBudgetExceeded):
                was = MON.metering
                MON.metering = False
                try:
                    after = (self.rewards, self.players, self.transition_list, self.final_states)
                    if not same_typed(after, before):       # equal values of another kind (Fraction -> float) count as changed
                        names = ["rewards", "players", "transition_list", "final_states"]
                        diff = [nm for nm, a, b in zip(names, after, before) if not same_typed(a, b)]
                        MON.event("alias", {"changed": diff, "prune": bool(self.prune_states),
                                            "raised": type(raised).__name__ if raised else None,
                                            "before": _small(before[2]), "after": _small(copy.deepcopy(after[2]))})
                finally:
                    MON.metering = was
    return solve_monitored


# ----------------------------------------------------------------------------- M-PRUNE

def _wrap_solve_reachability(orig):
    @functools.wraps(orig)
    def solve_reachability_monitored(self, *args, **kwargs):
        if MON.flags["prune"]:
            MON.prune_ctx = {"solver": self, "orig": [list(st.next_states) for st in self.state_list],
                             "strategies": None}
        return orig(self, *args, **kwargs)
    return solve_reachability_monitored


def _wrap_prune_reachability(orig):
    @functools.wraps(orig)
    def prune_reachability_monitored(self, reachability_strategies, *args, **kwargs):
        ctx = MON.prune_ctx
        if MON.flags["prune"] and ctx is not None and ctx["solver"] is self:
            ctx["strategies"] = copy.deepcopy(reachability_strategies)
        return orig(self, reachability_strategies, *args, **kwargs)
    return prune_reachability_monitored


def check_pruned_lists(players, orig, strategies, reach, after):
    """The C03 invariant on plain data.  Returns list of problem dicts (empty = holds)."""
    problems = []
    n = len(players)
    # states reachable from 0 in the resulting graph
    seen = {0}
    stack = [0]
    while stack:
        v = stack.pop()
        for _, t in after[v]:
            if t not in seen:
                seen.add(t)
                stack.append(t)
    removed = kept = 0
    maxerr = 0.0
    for s in range(n):
        o, a = orig[s], after[s]
        if players[s] == "Player 1":
            strat = strategies[s] if strategies is not None and strategies[s] is not None else [x for x, _ in o]
            exp = [(x, t) for x, t in o if x in strat and reach[t] != 0]
            for x, t in a:
                if reach[t] == 0:
                    problems.append({"state": s, "kind": "Player 1", "problem": "dead successor kept", "target": t})
            if list(a) != exp and not any(p["state"] == s for p in problems):
                problems.append({"state": s, "kind": "Player 1", "problem": "list is not the in-order live, permitted subsequence",
                                 "expected": exp, "got": list(a)})
            removed += len(o) - len(a)
            kept += len(a)
        elif players[s] == "Probabilistic":
            if s not in seen and list(a) == []:
                continue            # unreachable non-Player-1 states may be blanked
            live = [(p, t) for p, t in o if reach[t] != 0]
            for p, t in a:
                if reach[t] == 0:
                    problems.append({"state": s, "kind": "Probabilistic", "problem": "dead successor kept", "target": t,
                                     "orig": list(o), "got": list(a)})
            if any(p["state"] == s for p in problems):
                continue
            if [t for _, t in a] != [t for _, t in live]:
                problems.append({"state": s, "kind": "Probabilistic", "problem": "survivors are not the in-order live subsequence",
                                 "orig": list(o), "got": list(a)})
                continue
            tot = sum(p for p, _ in live)
            if tot == 0:
                # only zero-probability branches survive: there is nothing to rescale (the quotient is undefined); they stay as listed
                if [p for p, _ in a] != [p for p, _ in live]:
                    problems.append({"state": s, "kind": "Probabilistic", "problem": "zero-probability survivors were altered", "orig": list(o), "got": list(a)})
                removed += len(o) - len(a)
                kept += len(a)
                continue
            for (p_new, _), (p_old, _) in zip(a, live):
                want = p_old / tot if len(live) != len(o) else p_old
                err = abs(p_new - want) / max(abs(want), 1e-300)
                maxerr = max(maxerr, err)
                if err > 1e-12:
                    problems.append({"state": s, "kind": "Probabilistic", "problem": "probability is not original/surviving total",
                                     "orig": list(o), "got": list(a)})
                    break
            if a and len(live) != len(o) and abs(sum(p for p, _ in a) - 1) > 1e-12:
                problems.append({"state": s, "kind": "Probabilistic", "problem": "surviving probabilities do not sum to 1",
                                 "got": list(a)})
            removed += len(o) - len(a)
            kept += len(a)
        else:
            if s in seen and list(a) != list(o):
                problems.append({"state": s, "kind": "Player 2", "problem": "reachable Player 2 state changed",
                                 "orig": list(o), "got": list(a)})
            kept += len(a)
    return problems, {"removed": removed, "kept": kept, "max_renorm_err": maxerr}


def _wrap_prune_game(orig):
    @functools.wraps(orig)
    def prune_stochastich_game_monitored(self, *args, **kwargs):        # signature-agnostic: a refactoring may add parameters
        ctx = MON.prune_ctx
        active = MON.flags["prune"] and ctx is not None and ctx["solver"] is self
        raised = None
        try:
            return orig(self, *args, **kwargs)
        except StepBudgetExceeded:
            raise
        except BaseException as e:
            raised = e
            raise
        finally:
            if active:
                was = MON.metering
                MON.metering = False
                try:
                    MON.count("prune.exits")
                    players = [st.player for st in self.state_list]
                    reach = [st.reach_probability for st in self.state_list]
                    after = [list(st.next_states) for st in self.state_list]
                    rec = {"players": players, "orig": ctx["orig"], "strategies": ctx["strategies"],
                           "reach": reach, "after": after}
                    if raised is not None and not isinstance(raised, StepBudgetExceeded):
                        rec["raised"] = type(raised).__name__ + ": " + str(raised)[:200]
                        problems, st = [{"problem": "pruning step raised " + rec["raised"]}], {}
                    else:
                        problems, st = check_pruned_lists(players, ctx["orig"], ctx["strategies"], reach, after)
                    rec["problems"] = problems
                    rec["stats"] = st
                    MON.last_prune = rec
                    for k, v in st.items():
                        if k.startswith("max_"):
                            MON.counters["prune." + k] = max(MON.counters.get("prune." + k, 0), v)
                        else:
                            MON.count("prune." + k, v)
                    if problems:
                        small = len(players) <= 60
                        MON.event("prune", {"problems": problems[:5],
                                            "game": {"players": players, "orig": ctx["orig"], "reach": reach,
                                                     "strategies": ctx["strategies"], "after": after} if small else None})
                finally:
                    MON.metering = was
    return prune_stochastich_game_monitored


# ----------------------------------------------------------------------------- M-STEP

_TOOL = 3
_step_ready = False


def _jump_cb(code, offset, dest):
    if dest < offset and MON.metering:
        MON.steps += 1
        if MON.limit is not None and MON.steps > MON.limit:
            MON.metering = False
            raise StepBudgetExceeded(MON.steps, code.co_name)


def _code_objects(mod):
    out = []
    seen = set()

    def walk(co):
        if id(co) in seen:
            return
        seen.add(id(co))
        out.append(co)
        for c in co.co_consts:
            if hasattr(c, "co_code"):
                walk(c)

    for v in list(vars(mod).values()):
        if hasattr(v, "__code__") and getattr(v, "__module__", None) == mod.__name__:
            walk(v.__code__)
        elif isinstance(v, type) and v.__module__ == mod.__name__:
            for m in vars(v).values():
                f = getattr(m, "__func__", m)
                if hasattr(f, "__code__"):
                    walk(f.__code__)
    return out


def _install_step_meter(modules):
    global _step_ready
    mon = sys.monitoring
    try:
        mon.use_tool_id(_TOOL, "verif-step-meter")
    except ValueError:
        pass
    mon.register_callback(_TOOL, mon.events.JUMP, _jump_cb)
    k = 0
    for m in modules:
        for co in _code_objects(m):
            mon.set_local_events(_TOOL, co, mon.events.JUMP)
            k += 1
    MON.counters["step.code_objects"] = k
    _step_ready = True


class budget:
    """with budget(limit) as b: ... ; b.steps afterwards.  limit None = count only."""

    def __init__(self, limit=None):
        self.limit = limit
        self.steps = 0

    def __enter__(self):
        MON.steps = 0
        MON.limit = self.limit
        MON.metering = True
        return self

    def __exit__(self, *exc):
        MON.metering = False
        self.steps = MON.steps
        MON.limit = None
        return False


def _diagnose_total(solver, sweeps=40):
    """Continue the total-reward iteration by hand with the real step functions and record which of
    the three tracked quantities still moves (metering is off while this runs)."""
    rec = []
    for _ in range(sweeps):
        dm = da = dr = 0.0
        for st in solver.state_list:
            a, b, c = st.value_iteration_rewards(solver.state_list)
            dm = max(dm, abs(a - st.expected_rewards))
            da = max(da, abs(b - st.expected_rewards_min_reach))
            dr = max(dr, abs(c - st.expected_reach_min_rewards))
            st.expected_rewards, st.expected_rewards_min_reach, st.expected_reach_min_rewards = a, b, c
        rec.append((dm, da, dr))
    thr = solver.threshold
    main_quiet = all(r[0] <= thr for r in rec)
    reach_quiet = all(r[2] <= thr for r in rec)
    aux = [r[1] for r in rec]
    aux_const = min(aux) > thr and (max(aux) - min(aux)) <= 1e-6 * max(1.0, max(aux))
    return {
        "phase": "total_rewards",
        "all_quiet": all(max(r) <= thr for r in rec),
        "main_quiet": main_quiet, "reach_min_rew_quiet": reach_quiet, "aux_constant_growth": aux_const,
        "last": rec[-1], "first": rec[0],
        "max_expected_rewards": max(st.expected_rewards for st in solver.state_list),
        "max_aux": max(st.expected_rewards_min_reach for st in solver.state_list),
    }


def _wrap_vi_total(orig):
    @functools.wraps(orig)
    def value_iteration_total_rewards_monitored(self, *args, **kwargs):
        MON.count("step.vi_total_calls")
        try:
            return orig(self, *args, **kwargs)
        except StepBudgetExceeded as e:
            MON.metering = False
            try:
                e.diag = _diagnose_total(self)
            except Exception as ex:       # diagnosis must never mask the overrun
                e.diag = {"phase": "total_rewards", "diag_error": repr(ex)}
            raise
    return value_iteration_total_rewards_monitored


def _wrap_vi_reach(orig):
    @functools.wraps(orig)
    def value_iteration_reachability_monitored(self, states_reaching_final, *args, **kwargs):
        MON.count("step.vi_reach_calls")
        try:
            return orig(self, states_reaching_final, *args, **kwargs)
        except StepBudgetExceeded as e:
            MON.metering = False
            try:
                # continue by hand with the real step functions: does anything still move?
                diffs = []
                for _ in range(30):
                    md = 0.0
                    for idx in states_reaching_final:
                        st = self.state_list[idx]
                        nv = st.value_iteration_reach(self.state_list)
                        md = max(md, abs(nv - st.reach_probability))
                        st.reach_probability = nv
                    diffs.append(md)
                e.diag = {"phase": "reachability", "all_quiet": all(d <= self.threshold for d in diffs), "first": diffs[0], "last": diffs[-1],
                          "states_iterated": len(states_reaching_final)}
            except Exception as ex:
                e.diag = {"phase": "reachability", "diag_error": repr(ex)}
            raise
    return value_iteration_reachability_monitored


# ----------------------------------------------------------------------------- M-FS

_fs_hook_installed = False
_WRITE_FLAGS = os.O_WRONLY | os.O_RDWR | os.O_CREAT | os.O_TRUNC | os.O_APPEND


def _audit(event, args):
    if not MON.fs_on:
        return
    if event == "open":
        path, mode, flags = (list(args) + [None, None, None])[:3]
        writing = False
        if isinstance(mode, str):
            writing = any(c in mode for c in "wax+")
        elif isinstance(flags, int):
            writing = bool(flags & _WRITE_FLAGS)
        MON.fs_log.append(("open-w" if writing else "open-r", str(path)))
    elif event in ("os.remove", "os.rename", "os.mkdir", "os.rmdir", "os.truncate", "os.link", "os.symlink",
                   "shutil.copyfile", "shutil.move"):
        MON.fs_log.append((event, str(args[0]) if args else ""))


class fs_record:
    def __enter__(self):
        global _fs_hook_installed
        if not _fs_hook_installed:
            sys.addaudithook(_audit)
            _fs_hook_installed = True
        MON.fs_log = []
        MON.fs_on = True
        return self

    def __exit__(self, *exc):
        MON.fs_on = False
        self.log = list(MON.fs_log)
        self.writes = [p for k, p in self.log if k != "open-r"]
        return False


# ----------------------------------------------------------------------------- M-RUN

def _wrap_run_games(orig):
    @functools.wraps(orig)
    def run_games_monitored(games_dict, *args, **kwargs):
        MON.count("run.calls")
        res = orig(games_dict, *args, **kwargs)
        MON.runs.append(res)
        if len(MON.runs) > 4:
            MON.runs.pop(0)
        return res
    return run_games_monitored


# ----------------------------------------------------------------------------- install

def install(step_meter=True):
    """Import the repository's modules from the working tree and attach every monitor. Idempotent."""
    if MON.installed:
        return _mods
    import importlib
    import logging
    if os.environ.get("VERIF_LOGLEVEL") == "DEBUG":
        # what `-l d` does, minus the output: root logger at DEBUG, records go to a NullHandler
        root = logging.getLogger()
        root.handlers[:] = [logging.NullHandler()]
        root.setLevel(logging.DEBUG)
        # keep record creation cheap (no stack walk, no thread / process lookups): the records go nowhere anyway
        logging._srcfile = None
        logging.logThreads = logging.logProcesses = logging.logMultiprocessing = False
        MON.count("env.debug_loglevel_workers")
    else:
        logging.disable(logging.CRITICAL)      # the solver logs at INFO/ERROR through the root logger
    if sys.flags.optimize:
        MON.count("env.optimized_interpreter_workers")
    if os.environ.get("VERIF_WARNINGS") == "error":
        import warnings
        for m_ in ("tad", "conditionalrewards", "reverse_dfs", "roberta_generator", "stochastic_game_from_roborta_board"):
            warnings.filterwarnings("error", module="^" + m_ + "$")
        MON.count("env.warnings_as_errors_workers")
    reverse_dfs = importlib.import_module("reverse_dfs")
    tad = importlib.import_module("tad")
    cr = importlib.import_module("conditionalrewards")
    rg = importlib.import_module("roberta_generator")
    mb = importlib.import_module("stochastic_game_from_roborta_board")
    for m in (reverse_dfs, tad, cr, rg, mb):
        f = os.path.abspath(m.__file__)
        if not f.startswith(bootstrap.REPO + os.sep):
            raise SystemExit("monitors: %s imported from %s, not from %s" % (m.__name__, f, bootstrap.REPO))
    _mods.update(reverse_dfs=reverse_dfs, tad=tad, conditionalrewards=cr, roberta_generator=rg, manual=mb)
    if step_meter:
        _install_step_meter([tad, reverse_dfs])
    def wrap(owner, name, wrapper):
        """Attach a monitor if the hook point still exists; a missing one is recorded (checks that need it end inconclusive)."""
        orig = getattr(owner, name, None)
        if orig is None:
            MON.count("install.missing.%s.%s" % (getattr(owner, "__name__", owner), name))
            return None
        w = wrapper(orig)
        setattr(owner, name, w)
        return w

    # M-REV (both names: tad bound reverse_dfs with `from ... import` before we wrap)
    wrap(reverse_dfs, "reverse_transition_list", _wrap_reverse_tl)
    wrapped = wrap(reverse_dfs, "reverse_dfs", _wrap_reverse_dfs)
    if wrapped is not None and hasattr(tad, "reverse_dfs"):
        tad.reverse_dfs = wrapped
    # M-ALIAS / M-PRUNE / M-STEP call counters
    S, G = getattr(tad, "Solver", None), getattr(tad, "StochasticGame", None)
    if G is not None:
        wrap(G, "solve", _wrap_solve)
    if S is not None:
        wrap(S, "solve_reachability", _wrap_solve_reachability)
        wrap(S, "prune_reachability", _wrap_prune_reachability)
        wrap(S, "prune_stochastich_game", _wrap_prune_game)
        wrap(S, "value_iteration_total_rewards", _wrap_vi_total)
        wrap(S, "value_iteration_reachability", _wrap_vi_reach)
    wrap(cr, "run_games", _wrap_run_games)
    MON.installed = True
    return _mods


# ----------------------------------------------------------------------------- convenience: one observed solve

class Outcome:
    __slots__ = ("status", "result", "exc", "msg", "steps", "diag", "prune_rec")

    def __init__(self):
        self.status = None      # ok | nosol | valueerror | exception | budget
        self.result = None
        self.exc = None
        self.msg = None
        self.steps = 0
        self.diag = None
        self.prune_rec = None

    def brief(self):
        return {"status": self.status, "exc": self.exc, "msg": self.msg, "steps": self.steps, "diag": self.diag}


NOSOL_PREFIX = "The game has no solution"


class capture_log:
    """M-LOG: what run_games / main write to the log at INFO level (the only report a user gets without -s): the labelled lines
    '<Label> : <value>' of every game, in order.  Works whatever the root level is: a handler is added and the level lowered
    for the duration (and logging.disable lifted)."""
    LABELS = {"Message": "msg", "Reachability strategies": "reachability_strategies", "Final strategies": "final_strategies", "Rewards": "rewards",
              "Rewards min reach": "rew_min_reach", "Probabilities": "probabilities", "Probabilities min rew": "prob_min_rew"}

    def __enter__(self):
        import logging
        self.records = []
        outer = self

        class H(logging.Handler):
            def emit(self, record):
                try:
                    outer.records.append(record.getMessage())
                except Exception:      # noqa
                    outer.records.append(None)
        self.h = H(level=logging.INFO)
        root = logging.getLogger()
        self.old_level, self.old_disable = root.level, root.manager.disable
        logging.disable(logging.NOTSET)
        if root.getEffectiveLevel() > logging.INFO or root.level == logging.NOTSET:
            root.setLevel(logging.INFO)
        root.addHandler(self.h)
        return self

    def __exit__(self, *a):
        import logging
        root = logging.getLogger()
        root.removeHandler(self.h)
        root.setLevel(self.old_level)
        logging.disable(self.old_disable)
        return False

    def blocks(self):
        """-> list of dicts (one per 'Running example: <name>' section): {"name":..., label: text}"""
        out, cur = [], None
        for msg in self.records:
            if not isinstance(msg, str):
                continue
            if msg.startswith("Running example: "):
                cur = {"name": msg[len("Running example: "):]}
                out.append(cur)
                continue
            if cur is None:
                continue
            head, sep, val = msg.partition(":")
            label = head.strip()
            if sep and label in self.LABELS and head == head.rstrip() + " " * (len(head) - len(head.rstrip())) and label not in cur:
                cur[label] = val[1:] if val.startswith(" ") else val
        return out


def check_log_against(blocks, results):
    """Every labelled INFO line of a game must state the value of the entry run_games returned for it. -> problems"""
    problems = []
    names = [b["name"] for b in blocks]
    if names != list(results.keys()):
        return [{"problem": "the INFO log does not show one section per entry in run order", "log": names[:8], "entries": list(results.keys())[:8]}]
    for b, (name, e) in zip(blocks, results.items()):
        for label, key in capture_log.LABELS.items():
            if label not in b:
                problems.append({"problem": "the INFO log of %s has no line '%s'" % (name, label)})
            elif b[label] != str(e[key]):
                problems.append({"problem": "the INFO log line '%s' of %s does not state the value that was computed" % (label, name),
                                 "log": b[label][:200], "computed": str(e[key])[:200]})
    return problems


def observed_solve(game, prune, limit=None, sg=None):
    """Solve the description with the real StochasticGame under the step meter.  game: dict of the four
    lists (not copied here: aliasing is part of what is observed).  sg: reuse an existing object."""
    tad = _mods["tad"]
    out = Outcome()
    MON.last_prune = None
    # the pruning flag is documented as a boolean and used by truthiness: every seventh solve passes it as the int 1 / 0
    MON.count("solve.calls")
    flag = prune
    if MON.counters["solve.calls"] % 7 == 3 and isinstance(prune, bool):
        flag = int(prune)
        MON.count("solve.flag_given_as_int")
    try:
        if sg is None:
            sg = tad.StochasticGame(game["rewards"], game["players"], game["transition_list"],
                                    game["final_states"], prune_states=flag)
        else:
            sg.prune_states = flag
        reach_calls_before = MON.counters.get("step.vi_reach_calls", 0)
        total_calls_before = MON.counters.get("step.vi_total_calls", 0)
        with budget(limit) as b:
            try:
                out.result = sg.solve()
                out.status = "ok"
            except ValueError as e:
                out.msg = str(e)
                out.exc = "ValueError"
                # the 'no solution' error is recognised by its text or, should it be reworded, by where it is raised: during
                # the reachability phase of a pruned solve (before the pruning step, which is where stray errors come from)
                early = prune and MON.last_prune is None and MON.counters.get("step.vi_reach_calls", 0) > reach_calls_before \
                    and MON.counters.get("step.vi_total_calls", 0) == total_calls_before
                out.status = "nosol" if (str(e).startswith(NOSOL_PREFIX) or ("no solution" in str(e).lower() and early)) else "valueerror"
            except StepBudgetExceeded as e:
                out.status = "budget"
                out.exc = "StepBudgetExceeded"
                out.diag = e.diag if e.diag is not None else {"phase": "other", "function": e.where}
            except Exception as e:
                out.status = "exception"
                out.exc = type(e).__name__
                out.msg = str(e)[:300]
        out.steps = b.steps
    finally:
        MON.metering = False
    out.prune_rec = MON.last_prune
    MON.count("solve." + out.status)
    return out


def step_limit(n_states, n_trans, t_max=None):
    """Logical budget in backward jumps (DESIGN C06): about max(1e4, 200*T_max) sweeps."""
    sweeps = 2e4 if t_max is None else max(2e4, 400.0 * float(t_max))
    return int(sweeps * (n_states + n_trans) + 1e5)
