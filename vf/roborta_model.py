"""Independent rule model of 'Roborta vs. the fair Light' + probabilistic bisimulation (DESIGN 2.6).

The model is written from the rules in property C08 over NAMED states; it shares no arithmetic with the generator
(no offsets, no flat indices).  Readings taken where the prose is silent (recorded in DESIGN): after a robot failure the
robot 'lands again' on its own tile (a loose tile may break then too); the start tile's looseness is never tested."""
P1 = "Player 1"
P2 = "Player 2"
PR = "Probabilistic"


from fractions import Fraction


def build_model(moves, rewards, loose, p_tile, p_robot, p_light, variant):
    """-> (states: dict name -> (owner, reward, transitions[(label|prob, name)]), initial name, finals set)"""
    L, W = len(moves), len(moves[0])
    S = {}
    S["WIN"] = (PR, 0, [(1, "WIN")])
    S["LOSE"] = (PR, 0, [(1, "LOSE")])

    def below(i, j):
        return ("land", i + 1, j) if i + 1 < L else "WIN"

    for i in range(L):
        for j in range(W):
            mv = moves[i][j]
            left, right = ("land", i, (j - 1) % W), ("land", i, (j + 1) % W)
            sides = {0: ["Left"], 1: ["Left", "Right"], 2: ["Right"], 3: []}[mv]
            # the light's turn: the tile's reward is collected here
            if variant in ("a", "b"):
                green_to, yellow_to = ("go_down", i, j), ("go_side", i, j)
            else:
                green_to, yellow_to = ("green?", i, j), ("yellow?", i, j)
            tr = [("Green", green_to)]
            if mv != 3:
                tr.append(("Yellow", yellow_to))
            S[("light", i, j)] = (P2, rewards[i][j], tr)
            if variant == "a":
                S[("go_down", i, j)] = (P1, 0, [("Down", below(i, j))])
                S[("go_side", i, j)] = (P1, 0, [(lab, left if lab == "Left" else right) for lab in sides])
            else:
                S[("go_down", i, j)] = (P1, 0, [("Down", ("try_down", i, j))])
                S[("go_side", i, j)] = (P1, 0, [(lab, ("try_left", i, j) if lab == "Left" else ("try_right", i, j)) for lab in sides])
                stay = ("land", i, j)
                S[("try_down", i, j)] = (PR, 0, [(p_robot, stay), (1 - p_robot, below(i, j))])
                S[("try_left", i, j)] = (PR, 0, [(p_robot, stay), (1 - p_robot, left)])
                S[("try_right", i, j)] = (PR, 0, [(p_robot, stay), (1 - p_robot, right)])
            if variant == "c":
                S[("green?", i, j)] = (PR, 0, [(p_light, ("go_free", i, j)), (1 - p_light, ("go_down", i, j))])
                S[("yellow?", i, j)] = (PR, 0, [(p_light, ("go_free", i, j)), (1 - p_light, ("go_side", i, j))])
                free = [("Down", ("try_down", i, j))] + \
                       [(lab, ("try_left", i, j) if lab == "Left" else ("try_right", i, j)) for lab in sides]
                S[("go_free", i, j)] = (P1, 0, free)
            if loose[i][j] == 1:
                S[("land", i, j)] = (PR, 0, [(p_tile, "LOSE"), (1 - p_tile, ("light", i, j))])
            else:
                S[("land", i, j)] = (PR, 0, [(1, ("light", i, j))])
    return S, ("light", 0, 0), {"WIN"}


def from_game(game):
    """Solver-style description -> the same triple with integer state names."""
    S = {}
    for s, (owner, rew, tr) in enumerate(zip(game["players"], game["rewards"], game["transition_list"])):
        S[s] = (owner, rew, list(tr))
    return S, 0, set(game["final_states"])


def _reach(S, init):
    seen = {init}
    stack = [init]
    while stack:
        v = stack.pop()
        for _, t in S[v][2]:
            if t not in seen:
                if t not in S:
                    raise KeyError("transition into unknown state %r" % (t,))
                seen.add(t)
                stack.append(t)
    return seen


def bisimilar(A, B):
    """A, B: (states, init, finals).  Probabilistic bisimulation respecting owner, reward, finality and labels,
    decided by partition refinement on the disjoint union restricted to reachable states.
    -> (ok, info) ; info has sizes and, on failure, a distinguishing path."""
    SA, ia, fa = A
    SB, ib, fb = B
    nodes = {}
    for tag, S, init, fin in (("A", SA, ia, fa), ("B", SB, ib, fb)):
        for s in _reach(S, init):
            owner, rew, tr = S[s]
            nodes[(tag, s)] = (owner, rew, s in fin, [(x, (tag, t)) for x, t in tr])
    block = {}
    ids = {}
    for k, (owner, rew, fin, _) in nodes.items():
        sig = (owner, Fraction(rew), fin)           # exact: an int no double represents (2^53+1) is not equal to its nearest float
        block[k] = ids.setdefault(sig, len(ids))
    rounds = 0
    while True:
        rounds += 1
        ids = {}
        new = {}
        for k, (owner, rew, fin, tr) in nodes.items():
            if owner == PR:
                dist = {}
                for p, t in tr:
                    dist[block[t]] = dist.get(block[t], 0.0) + float(p)
                sig = (block[k], tuple(sorted((b, round(p, 12)) for b, p in dist.items())))
            else:
                sig = (block[k], tuple(sorted({(lab, block[t]) for lab, t in tr})))
            new[k] = ids.setdefault(sig, len(ids))
        stable = len(ids) == len(set(block.values()))
        block = new
        if stable:
            break
    info = {"states_A": sum(1 for k in nodes if k[0] == "A"), "states_B": sum(1 for k in nodes if k[0] == "B"),
            "blocks": len(set(block.values())), "rounds": rounds}
    ok = block[("A", ia)] == block[("B", ib)]
    if not ok:
        info["path"] = _witness(nodes, block, ("A", ia), ("B", ib))
    return ok, info


def _witness(nodes, block, a0, b0):
    """Shortest label/branch path from the initial pair to a pair that differs locally w.r.t. the final partition."""
    from collections import deque
    q = deque([(a0, b0, [])])
    seen = {(a0, b0)}
    while q:
        a, b, path = q.popleft()
        oa, ra, fa, ta = nodes[a]
        ob, rb, fb, tb = nodes[b]
        if (oa, float(ra), fa) != (ob, float(rb), fb):
            return path + [{"A": repr(a[1]), "B": repr(b[1]), "differs": "owner/reward/final",
                            "A_has": [oa, ra, fa], "B_has": [ob, rb, fb]}]
        if oa != PR:
            la, lb = {lab for lab, _ in ta}, {lab for lab, _ in tb}
            if la != lb:
                return path + [{"A": repr(a[1]), "B": repr(b[1]), "differs": "action labels", "A_has": sorted(la), "B_has": sorted(lb)}]
            for lab, t in ta:
                for lab2, t2 in tb:
                    if lab2 == lab and (t, t2) not in seen and block[t] != block[t2]:
                        seen.add((t, t2))
                        q.append((t, t2, path + [{"A": repr(a[1]), "B": repr(b[1]), "via": lab}]))
        else:
            da, db = {}, {}
            for p, t in ta:
                da[block[t]] = da.get(block[t], 0.0) + float(p)
            for p, t in tb:
                db[block[t]] = db.get(block[t], 0.0) + float(p)
            ka = {k: round(v, 12) for k, v in da.items()}
            kb = {k: round(v, 12) for k, v in db.items()}
            if ka != kb:
                # find the most similar pair of branches that lead into different blocks
                for p, t in ta:
                    for p2, t2 in tb:
                        if round(float(p), 12) == round(float(p2), 12) and block[t] != block[t2] and (t, t2) not in seen:
                            seen.add((t, t2))
                            q.append((t, t2, path + [{"A": repr(a[1]), "B": repr(b[1]), "via": "p=%g" % float(p)}]))
                if not q:
                    return path + [{"A": repr(a[1]), "B": repr(b[1]), "differs": "distribution over classes",
                                    "A_has": [[float(p), repr(t[1])] for p, t in ta], "B_has": [[float(p), repr(t[1])] for p, t in tb]}]
    return [{"note": "no local difference found along matched branches (difference lies deeper in the refinement)"}]
