"""Path setup and offline dependency bootstrap.  Import this first in every process."""
import os
import sys
import subprocess
import fcntl

sys.dont_write_bytecode = True

VERIF = os.path.dirname(os.path.dirname(os.path.abspath(__file__)))
REPO = os.path.abspath(os.environ.get("VERIF_REPO", "/repo"))
DEPS = os.path.join(VERIF, ".deps")
WHEELS = "/opt/veriftools/wheels"
PYTHON = "/venv/bin/python" if os.path.exists("/venv/bin/python") else sys.executable

if VERIF not in sys.path:
    sys.path.insert(0, VERIF)


def repo_on_path():
    """The repository is imported from its working tree, never from a cache."""
    if REPO not in sys.path:
        sys.path.insert(0, REPO)
    return REPO


def have_deps():
    return all(os.path.isdir(os.path.join(DEPS, m)) for m in ("numpy", "scipy", "jsonschema"))


def ensure_deps(verbose=False):
    """Install numpy/scipy/jsonschema from the offline wheelhouse into /verif/.deps (git-ignored)."""
    if not have_deps():
        os.makedirs(DEPS, exist_ok=True)
        with open(os.path.join(DEPS, ".lock"), "w") as lock:
            fcntl.flock(lock, fcntl.LOCK_EX)
            if not have_deps():
                cmd = [PYTHON, "-m", "pip", "install", "--quiet", "--no-index", "--find-links", WHEELS,
                       "--target", DEPS, "--upgrade", "numpy", "scipy", "jsonschema"]
                env = dict(os.environ, PIP_NO_INDEX="1", PIP_DISABLE_PIP_VERSION_CHECK="1")
                r = subprocess.run(cmd, env=env, capture_output=True, text=True)
                if r.returncode != 0:
                    sys.stderr.write(r.stdout + r.stderr)
                    raise SystemExit("bootstrap: offline install of numpy/scipy/jsonschema failed")
                if verbose:
                    print("bootstrap: installed numpy scipy jsonschema into", DEPS)
    if DEPS not in sys.path:
        sys.path.append(DEPS)


def deps_on_path():
    if have_deps() and DEPS not in sys.path:
        sys.path.append(DEPS)
    return have_deps()
