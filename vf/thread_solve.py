"""python -B -m vf.thread_solve : the real code driven from SEVERAL THREADS of one interpreter.

stdin: JSON {"mode": solve|same_object|run_games|reverse_dfs, "games": [...], "threads": T, "rounds": R}
Every item is first processed sequentially in the main thread (reference), then the items are processed concurrently by T
threads for R rounds under a very small switch interval; each concurrent outcome is compared with the reference of the same
item.  The code under test is deterministic and keeps no state between calls, so the two must be identical; any difference (or an
exception in one of them only) is printed.  No monitor of vf.monitors is installed in this process (their state is per process,
not per thread); the only hook is a per-thread recorder of the transition lists a solver holds after its pruning step.
stdout: JSON {"items": n, "concurrent_runs": k, "mismatches": [...], "overlap": {...}}"""
import json
import sys
import threading
import time
from . import bootstrap

bootstrap.repo_on_path()
_local = threading.local()
_active = {"now": 0, "max": 0, "lock": threading.Lock()}


def _hook_prune(tad):
    orig = tad.Solver.prune_stochastich_game

    def prune_recorded(self):
        r = orig(self)
        _local.pruned = [list(st.next_states) for st in self.state_list]
        return r
    tad.Solver.prune_stochastich_game = prune_recorded


def _solve(tad, desc, prune, sg=None):
    _local.pruned = None
    try:
        if sg is None:
            sg = tad.StochasticGame(desc["rewards"], desc["players"], desc["transition_list"], desc["final_states"], prune_states=prune)
        res = sg.solve()
        return {"status": "ok", "result": repr(res), "parts": [repr(x) for x in res], "pruned": repr(_local.pruned)}
    except ValueError as e:
        return {"status": "ValueError", "result": str(e)[:200], "parts": None, "pruned": repr(_local.pruned)}
    except Exception as e:       # noqa
        return {"status": type(e).__name__, "result": str(e)[:200], "parts": None, "pruned": None}


def main():
    import logging
    logging.disable(logging.CRITICAL)
    import tad
    import conditionalrewards as cr
    import reverse_dfs as rd
    from . import games
    job = json.loads(sys.stdin.read())
    mode, T, R = job["mode"], job.get("threads", 4), job.get("rounds", 4)
    _hook_prune(tad)
    items = []
    if mode in ("solve", "same_object", "run_games"):
        for enc in job["games"]:
            items.append(games.to_solver(games.dec_game(enc)) if "players" in enc else enc)
    else:
        items = [(g["tl"], g["finals"]) for g in job["games"]]
    import copy

    def work(i, shared=None):
        it = items[i]
        if mode == "solve":
            return [_solve(tad, copy.deepcopy(it), p) for p in (True, False)]
        if mode == "same_object":
            return [_solve(tad, it, True, sg=shared[i])]
        if mode == "run_games":
            try:
                out = cr.run_games({"g%d" % i: copy.deepcopy(it)})
                return [{"status": "ok", "result": repr({k: {f: v for f, v in e.items() if f != "total_time"} for k, e in out.items()}), "parts": None, "pruned": None}]
            except Exception as e:       # noqa
                return [{"status": type(e).__name__, "result": str(e)[:200], "parts": None, "pruned": None}]
        tl, finals = it
        try:
            return [{"status": "ok", "result": repr(rd.reverse_dfs(tl, finals)), "parts": None, "pruned": None}]
        except Exception as e:           # noqa
            return [{"status": type(e).__name__, "result": str(e)[:200], "parts": None, "pruned": None}]

    shared = None
    if mode == "same_object":
        shared = [tad.StochasticGame(d["rewards"], d["players"], d["transition_list"], d["final_states"], prune_states=True) for d in items]
    ref = [work(i, shared) for i in range(len(items))]
    if job.get("yield_every"):
        # yield injection: at every k-th executed line (on average) of the repository's modules the running thread gives up the
        # GIL, so that threads interleave inside the solver's loops and not only at the interpreter's switch interval
        import random
        mon = sys.monitoring
        tool = 3
        mon.use_tool_id(tool, "verif-yield")
        rnd_ = random.Random(job.get("seed", 0))
        yield_k = max(1, int(job["yield_every"]))
        files = {m.__file__ for m in (tad, cr, rd)}

        def on_line(code, line):
            if code.co_filename not in files:
                return mon.DISABLE
            try:
                if rnd_.randrange(yield_k) == 0:
                    time.sleep(0)
            except Exception:        # noqa - the injector must never raise into the code under test
                pass
        mon.register_callback(tool, mon.events.LINE, on_line)
        mon.set_events(tool, mon.events.LINE)
    mismatches = []
    runs = 0
    old = sys.getswitchinterval()
    sys.setswitchinterval(1e-6)
    try:
        for rnd in range(R):
            results = {}
            barrier = threading.Barrier(T)

            def body(t):
                barrier.wait()
                with _active["lock"]:
                    _active["now"] += 1
                    _active["max"] = max(_active["max"], _active["now"])
                try:
                    if mode == "same_object":
                        idxs = list(range(len(items)))            # every thread solves every shared object
                    else:
                        idxs = [i for i in range(len(items)) if i % T == t]
                        # a second pass in another order, so that different pairs of items overlap in different rounds
                        idxs = idxs[rnd % max(1, len(idxs)):] + idxs[:rnd % max(1, len(idxs))]
                    for i in idxs:
                        results[(t, i)] = work(i, shared)
                finally:
                    with _active["lock"]:
                        _active["now"] -= 1
            ths = [threading.Thread(target=body, args=(t,)) for t in range(T)]
            for th in ths:
                th.start()
            for th in ths:
                th.join()
            for (t, i), got in results.items():
                runs += len(got)
                for k, (a, b) in enumerate(zip(ref[i], got)):
                    if a["status"] != b["status"] or a["result"] != b["result"] or a["pruned"] != b["pruned"]:
                        diff = []
                        if a["status"] != b["status"]:
                            diff.append("status")
                        if a["parts"] and b["parts"]:
                            names = ["final_strategies", "reachability_strategies", "rewards", "probabilities", "n_iterations_reach",
                                     "n_iterations_rew", "prob_min_rew", "rew_min_reach"]
                            diff += [names[j] for j in range(8) if a["parts"][j] != b["parts"][j]]
                        if a["pruned"] != b["pruned"]:
                            diff.append("pruned_lists")
                        if not diff:
                            diff.append("result")
                        mismatches.append({"item": i, "round": rnd, "thread": t, "variant": k, "differs": diff,
                                           "sequential": (a["status"], a["result"][:300]), "concurrent": (b["status"], b["result"][:300])})
    finally:
        sys.setswitchinterval(old)
    sys.stdout.write(json.dumps({"items": len(items), "concurrent_runs": runs, "mismatches": mismatches[:40], "n_mismatches": len(mismatches),
                                 "max_threads_active": _active["max"]}))


if __name__ == "__main__":
    main()
