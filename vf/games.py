"""Game generators by workload class (DESIGN 3), encoding, transforms.

A game description `gd` is a dict {rewards, players, transition_list, final_states} whose
probabilities and rewards are fractions.Fraction (the *intended* game).  `to_solver(gd)` is what the
code under test receives (ints / floats), `to_oracle(gd)` what the exact oracle computes with.
"""
import random
from fractions import Fraction as F
from . import oracle
from .oracle import P1, P2, PR

LABELS = ["a", "b", "c", "d", "e", "f", "g", "h"]


# ----------------------------------------------------------------------------- encoding

def _encx(x):
    if isinstance(x, F):
        return {"q": "%d/%d" % (x.numerator, x.denominator)}
    return x


def _decx(x):
    if isinstance(x, dict) and "q" in x:
        a, b = x["q"].split("/")
        return F(int(a), int(b))
    return x


def enc_game(gd):
    return {
        "rewards": [_encx(r) for r in gd["rewards"]],
        "players": list(gd["players"]),
        "transition_list": [[[_encx(a), t] for a, t in tr] for tr in gd["transition_list"]],
        "final_states": list(gd["final_states"]),
        **({"_finals_tuple": True} if gd.get("_finals_tuple") else {}),
    }


def dec_game(j):
    return {
        "rewards": [_decx(r) for r in j["rewards"]],
        "players": list(j["players"]),
        "transition_list": [[(_decx(a), t) for a, t in tr] for tr in j["transition_list"]],
        "final_states": list(j["final_states"]),
        **({"_finals_tuple": True} if j.get("_finals_tuple") else {}),
    }


def _num(x):
    if isinstance(x, F):
        return int(x) if x.denominator == 1 else float(x)
    return x


def to_solver(gd):
    """Fresh lists/tuples of ints, floats and strings: what a user would type."""
    return {
        "rewards": [_num(r) for r in gd["rewards"]],
        # fresh string objects (as strings read from JSON / pickles / user input are): equal to the solver's constants, not identical
        "players": ["".join(list(p)) for p in gd["players"]],
        "transition_list": [[(_num(a), t) for a, t in tr] for tr in gd["transition_list"]],
        # a list unless the description asks for a tuple (both are accepted by the solver; repetitions are legal in either)
        "final_states": tuple(gd["final_states"]) if gd.get("_finals_tuple") else list(gd["final_states"]),
    }


def to_oracle(gd):
    tl = []
    for s, tr in enumerate(gd["transition_list"]):
        if gd["players"][s] == PR:
            tl.append([(F(a), t) for a, t in tr])
        else:
            tl.append([(a, t) for a, t in tr])
    return oracle.Game(gd["players"], tl, gd["final_states"], [F(r) for r in gd["rewards"]])


def from_solver_input(game):
    """Interpret a float description (board files, repo inputs) as the intended game: floats become the
    exact rationals they are (Fraction(float) is exact)."""
    return {
        "rewards": [F(r) for r in game["rewards"]],
        "players": list(game["players"]),
        "transition_list": [[((F(a) if game["players"][s] == PR else a), t) for a, t in tr]
                            for s, tr in enumerate(game["transition_list"])],
        "final_states": list(game["final_states"]),
    }


def n_transitions(gd):
    return sum(len(t) for t in gd["transition_list"])


def canon_key(gd):
    import hashlib
    return hashlib.sha1(repr(enc_game(gd)).encode()).hexdigest()[:16]


# ----------------------------------------------------------------------------- random pieces

def rand_dist(rng, k, denoms=(2, 3, 4, 5, 6, 8, 10, 10, 10, 20, 100)):
    """k positive Fractions summing to 1 with a small common denominator."""
    if k == 1:
        return [F(1)]
    for _ in range(50):
        d = rng.choice(denoms)
        if d < k:
            continue
        cuts = sorted(rng.sample(range(1, d), k - 1))
        parts = [b - a for a, b in zip([0] + cuts, cuts + [d])]
        return [F(p, d) for p in parts]
    return [F(1, k)] * k


def rand_reward(rng, rmax=20):
    r = rng.random()
    if r < 0.25:
        return F(0)
    if r < 0.9:
        return F(rng.randint(1, rmax))
    return rng.choice([F(5, 3), F(11, 6), F(1, 2), F(7, 4), F(1, 10), F(3, 10)])


def _absorbing_state(rng, s):
    r = rng.random()
    if r < 0.7:
        return PR, [(F(1), s)]
    if r < 0.85:
        return P1, [("a", s)]
    return P2, [("a", s)]


def gen_layered(rng, n, back=0.0, slow=0.0, owners=(0.35, 0.3, 0.35), rmax=20, nonabs_final=0.0,
                max_out=4, n_final=None, n_sink=None, zero_rewards=False, player_back=True):
    """Random game over a hidden order (state 0 first).  Base transitions go forward in the order
    (acyclic); with probability `back` a transition target is drawn from all states (cycles).
    `slow`: probability that a probabilistic state with a backward/self edge gives it mass .9-.99."""
    n = max(n, 3)
    n_final = n_final if n_final is not None else rng.choice([1, 1, 1, 2, 3])
    n_sink = n_sink if n_sink is not None else rng.choice([0, 1, 1, 2])
    n_abs = min(n_final + n_sink, n - 1)
    n_final = max(1, min(n_final, n_abs))
    # hidden order positions 0..n-1 ; last n_abs positions absorbing
    pos_kind = ["inner"] * (n - n_abs) + rng.sample(["final"] * n_final + ["sink"] * (n_abs - n_final), n_abs)
    players, tl, rewards, finals = [None] * n, [None] * n, [F(0)] * n, []
    for pos in range(n - 1, -1, -1):
        kind = pos_kind[pos]
        if kind != "inner":
            players[pos], tl[pos] = _absorbing_state(rng, pos)
            if kind == "final":
                finals.append(pos)
            continue
        owner = rng.choices([P1, P2, PR], owners)[0]
        k = rng.randint(1, max_out)
        later = list(range(pos + 1, n))
        targets = []
        has_back = False
        for i in range(k):
            if i > 0 and rng.random() < back and (owner == PR or player_back):
                t = rng.randrange(0, n)
                has_back = has_back or t <= pos
            else:
                t = rng.choice(later)
            targets.append(t)
        if owner == PR:
            probs = rand_dist(rng, k)
            if has_back and rng.random() < slow:
                bi = [i for i, t in enumerate(targets) if t <= pos][0]
                heavy = rng.choice([F(9, 10), F(19, 20), F(97, 100), F(99, 100)])
                rest = rand_dist(rng, k - 1) if k > 1 else []
                probs = []
                it = iter(rest)
                for i in range(k):
                    probs.append(heavy if i == bi else (1 - heavy) * next(it))
            tl[pos] = list(zip(probs, targets))
        else:
            labs = rng.sample(LABELS, k) if rng.random() < 0.5 else LABELS[:k]
            tl[pos] = list(zip(labs, targets))
        players[pos] = owner
        rewards[pos] = F(0) if zero_rewards else rand_reward(rng, rmax)
    # non-absorbing finals: turn some inner state into an additional final
    if nonabs_final and rng.random() < nonabs_final:
        inner = [p for p in range(1, n) if pos_kind[p] == "inner"]
        for p in rng.sample(inner, min(len(inner), rng.choice([1, 1, 2]))):
            finals.append(p)
    gd = {"rewards": rewards, "players": players, "transition_list": tl, "final_states": sorted(finals)}
    gd = renumber_random(rng, gd)
    if nonabs_final:
        # the final set is a list the user writes: any order, repetitions allowed
        fs = list(gd["final_states"])
        rng.shuffle(fs)
        if rng.random() < 0.3:
            fs.insert(rng.randrange(len(fs) + 1), rng.choice(fs))
        gd["final_states"] = fs
    return gd


def permute(gd, perm):
    """perm[old] = new; returns the renumbered game (transition order kept)."""
    n = len(gd["players"])
    inv = [0] * n
    for old, new in enumerate(perm):
        inv[new] = old
    return {
        "rewards": [gd["rewards"][inv[i]] for i in range(n)],
        "players": [gd["players"][inv[i]] for i in range(n)],
        "transition_list": [[(a, perm[t]) for a, t in gd["transition_list"][inv[i]]] for i in range(n)],
        "final_states": [perm[f] for f in gd["final_states"]],
    }


def renumber_random(rng, gd):
    n = len(gd["players"])
    rest = list(range(1, n))
    rng.shuffle(rest)
    return permute(gd, [0] + rest)


def random_perm(rng, n):
    rest = list(range(1, n))
    rng.shuffle(rest)
    return [0] + rest


def reversal_perm(n):
    return [0] + list(range(n - 1, 0, -1))


def shuffle_transitions(rng, gd, mode="random"):
    tl = []
    for tr in gd["transition_list"]:
        tr = list(tr)
        if mode == "reverse":
            tr.reverse()
        else:
            rng.shuffle(tr)
        tl.append(tr)
    out = dict(gd)
    out["transition_list"] = tl
    return out


def rename_actions(gd, mapping):
    tl = []
    for s, tr in enumerate(gd["transition_list"]):
        if gd["players"][s] == PR:
            tl.append(list(tr))
        else:
            tl.append([(mapping.get(a, a), t) for a, t in tr])
    out = dict(gd)
    out["transition_list"] = tl
    return out


def all_labels(gd):
    labs = []
    for s, tr in enumerate(gd["transition_list"]):
        if gd["players"][s] != PR:
            for a, _ in tr:
                if a not in labs:
                    labs.append(a)
    return labs


# ----------------------------------------------------------------------------- class generators

def gen_acy(rng, nmax=14, **kw):
    return gen_layered(rng, rng.randint(3, nmax), back=0.0, **kw)


def gen_cyc(rng, nmax=14, stopping=True, tries=200, **kw):
    """Cyclic game; accepted only if stopping (MEC test) and really cyclic."""
    for _ in range(tries):
        gd = gen_layered(rng, rng.randint(4, nmax), back=rng.choice([0.2, 0.35, 0.5]), **kw)
        g = to_oracle(gd)
        if not oracle.has_cycle(g):
            continue
        ok, _ = oracle.is_stopping(g)
        if ok == stopping:
            return gd
    return None


def gen_slow(rng, nmax=10, **kw):
    for _ in range(300):
        gd = gen_layered(rng, rng.randint(4, nmax), back=0.5, slow=0.8, owners=(0.25, 0.2, 0.55), **kw)
        g = to_oracle(gd)
        if not oracle.has_cycle(g):
            continue
        if oracle.is_stopping(g)[0]:
            heavy = any(gd["players"][s] == PR and not g.absorbing(s) and any(p >= F(9, 10) for p, _ in tr)
                        for s, tr in enumerate(gd["transition_list"]))
            if heavy:
                return gd
    return None


def gen_ec(rng, nmax=12):
    """Player-only end components: rings of Player-1 / Player-2 / mixed states with exits.
    Zero rewards (the game is not stopping; only reachability is meaningful)."""
    base = gen_layered(rng, rng.randint(4, nmax - 3), back=rng.choice([0.0, 0.3]), zero_rewards=True)
    n0 = len(base["players"])
    k = rng.randint(2, 3)
    kind = rng.choice(["p1", "p2", "mixed"])
    ring = list(range(n0, n0 + k))
    players = list(base["players"])
    tl = [list(t) for t in base["transition_list"]]
    rewards = list(base["rewards"])
    for i, s in enumerate(ring):
        owner = P1 if kind == "p1" else P2 if kind == "p2" else rng.choice([P1, P2])
        players.append(owner)
        rewards.append(F(0))
        tr = [("n", ring[(i + 1) % k])]
        if rng.random() < 0.7:
            tr.append(("x", rng.randrange(0, n0)))
        if rng.random() < 0.3:
            tr.append(("y", rng.randrange(0, n0)))
        rng.shuffle(tr)
        tl.append(tr)
    # hook the ring into the base game: some non-absorbing base states get an edge into the ring
    g0 = to_oracle(base)
    hooks = [s for s in range(n0) if not g0.absorbing(s)]
    for s in rng.sample(hooks, min(len(hooks), rng.randint(1, 2))):
        tgt = rng.choice(ring)
        if players[s] == PR:
            old = tl[s]
            share = rng.choice([F(1, 2), F(1, 4), F(1, 10)])
            tl[s] = [(p * (1 - share), t) for p, t in old] + [(share, tgt)]
        else:
            used = {a for a, _ in tl[s]}
            lab = [l for l in LABELS if l not in used][0]
            tl[s] = tl[s] + [(lab, tgt)]
    gd = {"rewards": rewards, "players": players, "transition_list": tl, "final_states": list(base["final_states"])}
    return renumber_random(rng, gd)


DEAD_KINDS = ["sink", "p2trap", "rewloop", "deadp1", "deadchain"]


def gen_dead(rng, kind, pattern, ctx=None, zero_prob=False):
    """State under test X of `kind` (P1 or PR) with len(pattern) transitions; pattern[i] True = live target.
    Dead targets are of several sorts (absorbing sink, Player-2 trap, rewarded dead loop that leaks to a sink,
    dead Player-1 state, dead chain); live targets are sub-games with distinct positive values.
    The game is stopping.  Returns (gd, x_index_before_renumbering -> after)."""
    L = len(pattern)
    players, tl, rewards = [], [], []

    def add(owner, tr, rew=F(0)):
        players.append(owner)
        tl.append(tr)
        rewards.append(rew)
        return len(players) - 1

    init = add(None, None)            # 0 placeholder
    final = add(PR, None)
    tl[final] = [(F(1), final)]
    sink = add(PR, None)
    tl[sink] = [(F(1), sink)]
    X = add(kind, None, rand_reward(rng))
    targets = []
    live_vals = [F(k, 12) for k in rng.sample(range(1, 12), min(L, 11))] + [F(1, 2)] * 5
    if kind == P1 and rng.random() < 0.6:
        live_vals = [live_vals[0]] * (L + 5)         # tied live targets: several reachability-optimal actions survive
    for i, live in enumerate(pattern):
        if live:
            sort = rng.choice(["final", "prob", "prob", "p1", "p2", "probcycle"])
            if sort == "final":
                t = final
            elif sort == "prob":
                q = live_vals[i]
                t = add(PR, [(q, final), (1 - q, sink)], rand_reward(rng))
            elif sort == "p1":
                q = live_vals[i]
                a = add(PR, [(q, final), (1 - q, sink)], rand_reward(rng))
                t = add(P1, [("u", a), ("w", sink)], rand_reward(rng))
            elif sort == "p2":
                q = live_vals[i]
                a = add(PR, [(q, final), (1 - q, sink)], rand_reward(rng))
                t = add(P2, [("u", a), ("w", final)], rand_reward(rng))
            else:
                q = live_vals[i]
                t = add(PR, None, rand_reward(rng))
                tl[t] = [(F(1, 2), t), (q / 2, final), ((1 - q) / 2, sink)]
        else:
            sort = rng.choice(DEAD_KINDS)
            if sort == "sink":
                t = sink if rng.random() < 0.5 else add(PR, None)
                if t != sink:
                    tl[t] = [(F(1), t)]
            elif sort == "p2trap":
                # Player 2 can avoid the final for sure
                t = add(P2, [("u", final), ("w", sink)], rand_reward(rng))
            elif sort == "rewloop":
                t = add(PR, None, F(rng.randint(1, 9)))
                tl[t] = [(F(1, 2), sink), (F(1, 2), t)] if rng.random() < 0.5 else [(F(1, 2), t), (F(1, 2), sink)]
            elif sort == "deadp1":
                b = add(PR, None, F(rng.randint(0, 5)))
                tl[b] = [(F(1), sink)]
                t = add(P1, [("u", b), ("w", sink)], rand_reward(rng))
            else:
                b = add(PR, None, F(rng.randint(0, 5)))
                tl[b] = [(F(1, 3), sink), (F(2, 3), b)]
                t = add(PR, [(F(1), b)], rand_reward(rng))
        targets.append(t)
    if kind == PR:
        probs = rand_dist(rng, L)
        if zero_prob and any(not x for x in pattern) and any(pattern):
            # one dead branch is listed with probability 0 (the others still sum to 1): a legal, degenerate way to write the state
            di = rng.choice([i for i, x in enumerate(pattern) if not x])
            rest = rand_dist(rng, L - 1) if L > 1 else []
            it = iter(rest)
            probs = [F(0) if i == di else next(it) for i in range(L)]
        tl[X] = list(zip(probs, targets))
    else:
        tl[X] = list(zip(LABELS[:L], targets))
    # context above X: the initial state reaches X and, independently, the final (so state 0 is live)
    style = rng.choice(["prob", "p1", "p2", "chain"]) if ctx is None else ctx
    if style == "prob":
        q = rng.choice([F(1, 2), F(1, 3), F(1, 10)])
        players[init], tl[init] = PR, [(q, X), (1 - q, final)] if rng.random() < 0.5 else [(1 - q, final), (q, X)]
    elif style == "p1":
        # Player 1 may choose X only if X is at least as good: keep both by routing via a probabilistic mixer
        m = add(PR, [(F(1, 2), X), (F(1, 2), final)], rand_reward(rng))
        players[init], tl[init] = P1, [("l", m), ("r", sink)]
    elif style == "p2":
        m = add(PR, [(F(1, 2), X), (F(1, 2), final)], rand_reward(rng))
        players[init], tl[init] = P2, [("l", m), ("r", final)]
    else:
        m = add(PR, [(F(1, 4), X), (F(3, 4), final)], rand_reward(rng))
        players[init], tl[init] = PR, [(F(1), m)]
    rewards[init] = rand_reward(rng)
    gd = {"rewards": rewards, "players": players, "transition_list": tl, "final_states": [final]}
    perm = random_perm(rng, len(players))
    return permute(gd, perm), perm[X]


def split_parallel(rng, gd, s):
    """Replace one probabilistic transition of s by two parallel ones with the same target
    (same game as rationals; different floating-point sums)."""
    tr = list(gd["transition_list"][s])
    cands = [i for i, (p, t) in enumerate(tr) if p.denominator <= 100 and p.numerator >= 2 or p >= F(1, 5)]
    if not cands:
        return gd
    i = rng.choice(cands)
    p, t = tr[i]
    a = p * rng.choice([F(1, 3), F(1, 2), F(2, 3), F(1, 10)])
    tr[i:i + 1] = [(a, t), (p - a, t)]
    out = dict(gd)
    out["transition_list"] = list(gd["transition_list"])
    out["transition_list"][s] = tr
    return out


def gen_tie(rng, cyclic=False, chooser=None, nmax=8):
    """Twin sub-games A and B, equal as rationals but written differently (numbering, transition order,
    parallel-edge splits, pass-through states), under a Player-1 or Player-2 chooser, plus optionally a
    third clearly different option.  Returns gd; the chooser is the successor of state 0 or state 0 itself."""
    for _ in range(200):
        if cyclic:
            A = gen_cyc(rng, nmax=nmax, owners=(0.2, 0.2, 0.6))
        else:
            A = gen_acy(rng, nmax=nmax, owners=(0.25, 0.25, 0.5))
        if A is None:
            continue
        gA = to_oracle(A)
        if 0 in gA.finals or gA.absorbing(0):
            continue
        if 0 not in oracle.positive_set(gA):
            continue
        break
    else:
        return None
    nA = len(A["players"])
    # twin B: permuted copy, shuffled transitions, some parallel splits
    perm = random_perm(rng, nA)
    B = permute(A, perm)
    B = shuffle_transitions(rng, B)
    for s in range(nA):
        if B["players"][s] == PR and len(B["transition_list"][s]) >= 2 and rng.random() < 0.6:
            B = split_parallel(rng, B, s)
    players = [None] + list(A["players"]) + list(B["players"])
    rewards = [F(0)] + list(A["rewards"]) + list(B["rewards"])
    offA, offB = 1, 1 + nA
    tl = [None]
    tl += [[(a, t + offA) for a, t in tr] for tr in A["transition_list"]]
    tl += [[(a, t + offB) for a, t in tr] for tr in B["transition_list"]]
    finals = [f + offA for f in A["final_states"]] + [f + offB for f in B["final_states"]]
    owner = chooser or rng.choice([P1, P2])
    opts = [("a", offA), ("b", offB)]
    if rng.random() < 0.5:
        # third option: clearly worse/better absorbing alternative
        s = len(players)
        players.append(PR)
        rewards.append(F(0))
        tl.append([(F(1), s)])
        if rng.random() < 0.5:
            finals.append(s)
        opts.append(("c", s))
    rng.shuffle(opts)
    players[0], tl[0] = owner, opts
    rewards[0] = rand_reward(rng)
    gd = {"rewards": rewards, "players": players, "transition_list": tl, "final_states": sorted(finals)}
    return renumber_random(rng, gd)


def gen_twin_rings(rng):
    """The D6 shape: two probabilistic rings equal as rationals, numbered in opposite directions,
    under a chooser (cyclic exact tie)."""
    k = rng.randint(2, 4)
    p = rng.choice([F(6, 10), F(1, 2), F(7, 10), F(9, 10)])
    q = rng.choice([F(2, 10), F(1, 10), F(3, 10)])
    if p + q >= 1:
        q = (1 - p) / 2
    r = 1 - p - q
    owner = rng.choice([P1, P2])
    players = [owner, PR, PR]
    rewards = [F(0), F(0), F(0)]
    final, sink = 1, 2
    tl = [None, [(F(1), 1)], [(F(1), 2)]]
    roots = []
    for ring in range(2):
        ids = list(range(len(players), len(players) + k))
        if ring == 1:
            ids = ids[::-1]
        for _ in range(k):
            players.append(PR)
            rewards.append(rand_reward(rng, 5))
            tl.append(None)
        for i in range(k):
            s = ids[i]
            tr = [(p, ids[(i + 1) % k]), (q, final), (r, sink)]
            if ring == 1:
                rng.shuffle(tr)
            tl[s] = tr
        # same rewards in both rings, position-wise
        if ring == 1:
            for i in range(k):
                rewards[ids[i]] = rewards[roots[0][1][i]]
        roots.append((ids[0], ids))
    tl[0] = [("a", roots[0][0]), ("b", roots[1][0])]
    gd = {"rewards": rewards, "players": players, "transition_list": tl, "final_states": [final]}
    return gd


def gen_lex(rng, nmax=10):
    """A random game plus Player-1 states whose most rewarding action is not reachability-optimal."""
    gd = gen_acy(rng, nmax=nmax) if rng.random() < 0.6 else (gen_cyc(rng, nmax=nmax) or gen_acy(rng, nmax=nmax))
    g = to_oracle(gd)
    n0 = g.n
    players, tl, rewards = list(gd["players"]), [list(t) for t in gd["transition_list"]], list(gd["rewards"])
    finals = list(gd["final_states"])
    absorbing_final = [f for f in finals if g.absorbing(f)]
    sinks = [s for s in range(n0) if g.absorbing(s) and s not in finals]
    if not absorbing_final:
        return gd
    f = absorbing_final[0]
    if not sinks:
        players.append(PR); rewards.append(F(0)); tl.append([(F(1), len(players) - 1)])
        sinks = [len(players) - 1]
    z = sinks[0]
    # tempting branch: big reward, low reachability ; modest branch: small reward, high reachability
    hi_r = len(players); players.append(PR); rewards.append(F(rng.randint(30, 90))); tl.append([(F(1, 10), f), (F(9, 10), z)])
    lo_r = len(players); players.append(PR); rewards.append(F(rng.randint(0, 3))); tl.append([(F(9, 10), f), (F(1, 10), z)])
    lo_r2 = len(players); players.append(PR); rewards.append(F(rng.randint(4, 9))); tl.append([(F(9, 10), f), (F(1, 10), z)])
    c = len(players); players.append(P1); rewards.append(rand_reward(rng))
    opts = [("t", hi_r), ("m", lo_r), ("k", lo_r2)]
    rng.shuffle(opts)
    tl.append(opts)
    # hook c under some inner states
    inner = [s for s in range(n0) if not g.absorbing(s)]
    for s in rng.sample(inner, min(len(inner), rng.randint(1, 2))):
        if players[s] == PR:
            share = rng.choice([F(1, 2), F(1, 4)])
            tl[s] = [(p * (1 - share), t) for p, t in tl[s]] + [(share, c)]
        else:
            used = {a for a, _ in tl[s]}
            tl[s] = tl[s] + [([l for l in LABELS if l not in used][0], c)]
    out = {"rewards": rewards, "players": players, "transition_list": tl, "final_states": finals}
    return renumber_random(rng, out)


def gen_tiny(rng):
    """Initial value positive but tiny: products of 1e-1 .. 1e-4 down a chain (stopping, acyclic)."""
    steps = rng.randint(1, 3)
    players, tl, rewards = [], [], []
    n = steps + 3
    final, sink = n - 2, n - 1
    if rng.random() < 0.5:
        return gen_tiny_players(rng)
    for i in range(steps + 1):
        p = rng.choice([F(1, 10), F(1, 100), F(1, 1000), F(1, 10000)]) if i < steps else F(1)
        nxt = i + 1 if i < steps else final
        owner = PR
        if p == 1:
            players.append(PR); tl.append([(F(1), nxt)])
        else:
            tr = [(p, nxt), (1 - p, sink)]
            if rng.random() < 0.5:
                tr.reverse()
            players.append(owner); tl.append(tr)
        rewards.append(rand_reward(rng, 5))
    players += [PR, PR]
    tl += [[(F(1), final)], [(F(1), sink)]]
    rewards += [F(0), F(0)]
    return {"rewards": rewards, "players": players, "transition_list": tl, "final_states": [final]}


TINY_PROBS = [F(1, 10 ** 7), F(3, 10 ** 7), F(49, 10 ** 8), F(1, 10 ** 9), F(1, 10 ** 10), F(1, 2 ** 31), F(6, 10 ** 7), F(1, 10 ** 6)]


def gen_tiny_branch(rng, nmax=9):
    """A random stopping game in which some live probabilistic / Player-1 state has an extra successor whose
    reachability value is positive but tiny (1e-10 .. 1e-6, reported exactly by the first sweep): such a branch is
    NOT dead and must survive conditioning; it carries rewards so that dropping it is visible."""
    gd = gen_acy(rng, nmax=nmax) if rng.random() < 0.6 else (gen_cyc(rng, nmax=nmax) or gen_acy(rng, nmax=nmax))
    g = to_oracle(gd)
    finals = [f for f in gd["final_states"] if g.absorbing(f)]
    if not finals:
        return gd
    f = finals[0]
    players, tl, rewards = list(gd["players"]), [list(t) for t in gd["transition_list"]], list(gd["rewards"])
    sinks = [s for s in range(g.n) if g.absorbing(s) and s not in gd["final_states"]]
    if not sinks:
        players.append(PR); rewards.append(F(0)); tl.append([(F(1), len(players) - 1)]); sinks = [len(players) - 1]
    z = sinks[0]
    W = oracle.positive_set(g)
    hosts = [s for s in range(g.n) if s in W and not g.absorbing(s) and players[s] in (PR, P1, P2)]
    if not hosts:
        return gd
    for s in rng.sample(hosts, min(len(hosts), rng.randint(1, 2))):
        q = rng.choice(TINY_PROBS)
        t = len(players)
        players.append(PR); rewards.append(F(rng.randint(1, 40)))
        tr = [(q, f), (1 - q, z)]
        if rng.random() < 0.5:
            tr.reverse()
        tl.append(tr)
        r = rng.random()
        if r >= 0.8:
            # a probabilistic state whose dead successor carries almost all the mass: the survivors (1e-13 .. 1e-10 each) must be
            # rescaled by THEIR sum; "1 - removed" cancels catastrophically here
            a1 = len(players); players.append(PR); rewards.append(F(rng.randint(100, 2000))); tl.append([(F(1), f)])
            a2 = len(players); players.append(PR); rewards.append(F(rng.randint(1, 50))); tl.append([(F(1), f)])
            pa, pb = rng.choice([(F(2, 10 ** 13), F(6, 10 ** 13)), (F(1, 10 ** 12), F(3, 10 ** 12)), (F(1, 10 ** 10), F(1, 10 ** 11)),
                                 (F(1, 10 ** 18), F(3, 10 ** 18)), (F(1, 10 ** 30), F(1, 10 ** 18)),     # these two: the dead mass is 1.0 as a double
                                 (F(1, 10 ** 310), F(3, 10 ** 310)), (F(1, 10 ** 320), F(1, 10 ** 310)), (F(1, 10 ** 300), F(2, 10 ** 308))])   # subnormal survivors
            t = len(players)
            tr = [(pa, a1), (pb, a2), (1 - pa - pb, z)]
            rng.shuffle(tr)
            players.append(PR); rewards.append(F(rng.randint(0, 9))); tl.append(tr)
        elif r < 0.3:          # one more hop in front of the tiny state
            t2 = len(players)
            players.append(rng.choice([PR, P1])); rewards.append(F(rng.randint(0, 9)))
            tl.append([(F(1), t)] if players[-1] == PR else [("a", t)])
            t = t2
        elif r < 0.6:
            # a Player-1 state whose BEST move is the tiny one, next to dead moves (they tie with it after rounding to
            # 6 digits, so they are reported as reachability-optimal too, and must then be removed as dead branches)
            d = len(players)
            players.append(PR); rewards.append(F(rng.randint(1, 9))); tl.append([(F(1, 2), z), (F(1, 2), d)])
            t2 = len(players)
            trap = len(players) + 1          # dead Player-2 state that keeps its transitions and is worth a lot
            opts = [("a", t), ("b", z), ("c", d), ("e", trap)]
            opts = [opts[0]] + rng.sample(opts[1:], rng.randint(1, 3))
            rng.shuffle(opts)
            players.append(P1); rewards.append(F(rng.randint(0, 9))); tl.append(opts)
            players.append(P2); rewards.append(F(rng.randint(30, 90))); tl.append([("u", f), ("w", z)])
            t = t2
        if players[s] == PR:
            share = rng.choice([F(1, 2), F(1, 4), F(1, 10)])
            new = [(p * (1 - share), x) for p, x in tl[s]]
            new.insert(rng.randrange(len(new) + 1), (share, t))
            tl[s] = new
        else:
            used = {a for a, _ in tl[s]}
            lab = [l for l in LABELS if l not in used][0]
            new = list(tl[s])
            new.insert(rng.randrange(len(new) + 1), (lab, t))
            tl[s] = new
    out = {"rewards": rewards, "players": players, "transition_list": tl, "final_states": list(gd["final_states"])}
    return renumber_random(rng, out)


def gen_init_final(rng, absorbing=True):
    """The initial state is itself a final state (value 1 by definition)."""
    gd = gen_acy(rng, nmax=8) if rng.random() < 0.5 else (gen_cyc(rng, nmax=8) or gen_acy(rng, nmax=8))
    players, tl, rewards = list(gd["players"]), [list(t) for t in gd["transition_list"]], list(gd["rewards"])
    finals = sorted(set(gd["final_states"]) | {0})
    if absorbing:
        owner = rng.choice([PR, PR, P1, P2])
        players[0] = owner
        tl[0] = [(F(1), 0)] if owner == PR else [("a", 0)] if rng.random() < 0.5 else [("a", 0), ("b", 0)]
        rewards[0] = F(0)
    if rng.random() < 0.3:
        finals = [0]
    return {"rewards": rewards, "players": players, "transition_list": tl, "final_states": finals}


def gen_near_tie(rng, cyclic=False, nmax=7):
    """A chooser between a sub-game and a copy of it that is worse by a small but *separated* margin (a leak of
    1e-5 .. 1e-3 into a sink in front of it), optionally a third, clearly different option.  Ordering these
    correctly needs the full precision the solver claims (stop rule, rounding digits)."""
    for _ in range(200):
        A = gen_cyc(rng, nmax=nmax, owners=(0.2, 0.2, 0.6)) if cyclic else gen_acy(rng, nmax=nmax, owners=(0.25, 0.25, 0.5))
        if A is None:
            continue
        gA = to_oracle(A)
        if 0 in gA.finals or gA.absorbing(0) or 0 not in oracle.positive_set(gA):
            continue
        break
    else:
        return None
    nA = len(A["players"])
    players = [None] + list(A["players"])
    rewards = [F(0)] + list(A["rewards"])
    tl = [None] + [[(a, t + 1) for a, t in tr] for tr in A["transition_list"]]
    finals = [f + 1 for f in A["final_states"]]
    sink = len(players)
    players.append(PR); rewards.append(F(0)); tl.append([(F(1), sink)])
    opts = [("a", 1)]
    for lab in ("b", "c")[:rng.randint(1, 2)]:
        eps = rng.choice([F(1, 10 ** 5), F(3, 10 ** 5), F(1, 10 ** 4), F(1, 2000), F(1, 1000)])
        s = len(players)
        players.append(PR); rewards.append(F(0))
        tr = [(1 - eps, 1), (eps, sink)]
        if rng.random() < 0.5:
            tr.reverse()
        tl.append(tr)
        opts.append((lab, s))
    if rng.random() < 0.7:
        # an independent competitor whose exact value lies just below A's: a few convergence bands away, so that it is
        # separated for a solver that really converges to its threshold, but not for one that stops early
        try:
            vA = oracle.reach_values(gA)["v"][0]
            TA = oracle.expected_steps_max(gA)[0] if oracle.is_stopping(gA)[0] else F(50)
        except oracle.OracleInconclusive:
            vA, TA = None, None
        if vA is not None and finals:
            gap = rng.choice([3, 5, 8, 15]) * F(1, 10 ** 6) * max(TA, 1) + F(4, 10 ** 6)
            q = vA - gap
            if 0 < q < 1:
                s = len(players)
                players.append(PR); rewards.append(F(0))
                tl.append([(q, finals[0]), (1 - q, sink)])
                opts.append(("d", s))
    if cyclic and finals and rng.random() < 0.5:
        # ballast: many states that settle in the first sweep (they move straight to a final state); a stop rule that
        # averages or sums over states instead of taking the largest change is diluted by them
        for _ in range(rng.choice([40, 120, 300])):
            players.append(PR); rewards.append(F(0)); tl.append([(F(1), finals[0])])
    rng.shuffle(opts)
    players[0], tl[0] = rng.choice([P1, P2]), opts
    gd = {"rewards": rewards, "players": players, "transition_list": tl, "final_states": sorted(finals)}
    return renumber_random(rng, gd)


def gen_reward_near(rng):
    """Player 2 chooses at state 0 between a slowly converging sub-game A (exact conditioned reward R at its root, pruning on)
    and an independent option worth exactly R - gap, gap a few convergence bands: the true choice is the cheaper option; a
    solver that stops before its threshold is reached undervalues A and picks it instead."""
    from . import analysis
    for _ in range(60):
        A = gen_slow(rng, nmax=8) if rng.random() < 0.6 else gen_cyc(rng, nmax=9)
        if A is None:
            continue
        an = analysis.Analysis(A)
        try:
            if not (an.stopping and an.finals_absorbing) or 0 not in an.W or an.g.absorbing(0):
                continue
            c = an.exact_conditioned(True)
            if not oracle.is_stopping(c)[0]:
                continue
            R = oracle.opt_total(c)["v"][0]
            T = oracle.expected_steps_max(c)[0]
        except oracle.OracleInconclusive:
            continue
        gap = rng.choice([5, 20, 100, 1000, 5000]) * F(1, 10 ** 6) * max(T, 1) + F(4, 10 ** 6)
        w = R - gap
        if w <= 0:
            continue
        nA = len(A["players"])
        gA = an.g
        fin = [f for f in A["final_states"] if gA.absorbing(f)][0]
        players = [P2] + list(A["players"]) + [PR]
        rewards = [F(0)] + list(A["rewards"]) + [w]
        comp = nA + 1
        tl = [None] + [[(a, t + 1) for a, t in tr] for tr in A["transition_list"]] + [[(F(1), fin + 1)]]
        opts = [("a", 1), ("c", comp)]
        rng.shuffle(opts)
        tl[0] = opts
        gd = {"rewards": rewards, "players": players, "transition_list": tl, "final_states": [f + 1 for f in A["final_states"]]}
        return renumber_random(rng, gd)
    return None


def gen_aux_fast(rng):
    """A slow rewarded cycle X -> Y -> X through a Player-2 state Y whose reachability-minimising action LEAVES the cycle while
    its reward-minimising action STAYS in it: the two diagnostic quantities converge in a few sweeps, the expected rewards need
    thousands.  A Player-2 chooser at state 0 compares the cycle (exact value r/(1-p)) with an option that is cheaper by 0.2-1 %."""
    p = rng.choice([F(99, 100), F(199, 200), F(999, 1000)])
    r = F(rng.randint(1, 5))
    q = rng.choice([F(1, 10), F(1, 2), F(1, 4)])
    R = r / (1 - p)
    k = rng.choice([F(1, 10000), F(3, 10000), F(1, 1000), F(5, 1000)])
    players = [P2, PR, P2, PR, PR, PR, PR]
    # 0 chooser, 1 X, 2 Y, 3 L (leave), 4 competitor, 5 final, 6 sink
    x_tr = [(p, 2), (1 - p, 5)]
    y_tr = [("stay", 1), ("leave", 3)]
    l_tr = [(q, 5), (1 - q, 6)]
    c0 = [("a", 1), ("b", 4)]
    for tr in (x_tr, y_tr, l_tr, c0):
        if rng.random() < 0.5:
            tr.reverse()
    tl = [c0, x_tr, y_tr, l_tr, [(F(1), 5)], [(F(1), 5)], [(F(1), 6)]]
    rewards = [F(rng.randint(0, 3)), r, F(0), 2 * R + rng.randint(1, 50), R * (1 - k), F(0), F(0)]
    gd = {"rewards": rewards, "players": players, "transition_list": tl, "final_states": [5]}
    return renumber_random(rng, gd)


def gen_dup_labels(rng, nmax=10):
    """Player states in which two or more transitions carry the SAME action label (nothing forbids it): the label then stands for
    all of them.  Built from a random stopping game by re-labelling."""
    gd = gen_acy(rng, nmax=nmax, max_out=4) if rng.random() < 0.6 else (gen_cyc(rng, nmax=nmax, max_out=4) or gen_acy(rng, nmax=nmax))
    tl = []
    changed = False
    for s, tr in enumerate(gd["transition_list"]):
        if gd["players"][s] != PR and len(tr) >= 2 and rng.random() < 0.7:
            tr = list(tr)
            i, j = rng.sample(range(len(tr)), 2)
            tr[j] = (tr[i][0], tr[j][1])
            if len(tr) >= 3 and rng.random() < 0.3:
                k = rng.choice([x for x in range(len(tr)) if x not in (i, j)])
                tr[k] = (tr[i][0], tr[k][1])
            changed = True
        tl.append(list(tr))
    out = dict(gd)
    out["transition_list"] = tl
    return out if changed else None


ULP_OFF = [(F(34, 100), F(56, 100), F(10, 100)), (F(7, 10), F(2, 10), F(1, 10)), (F(6, 10), F(3, 10), F(1, 10)),
           (F(1, 22), F(6, 22), F(15, 22)), (F(1, 10), F(2, 10), F(7, 10))]


def gen_mix(rng, nmax=10):
    """A random game put through a random subset of legal-but-unusual ways of writing it down (each was, at some point, the
    trigger of a seeded change): repeated action labels, identical parallel probabilistic edges, the empty action name, a branch
    listed with probability 0, tiny live branches, extra non-absorbing finals in arbitrary order with repetitions, skewed owners."""
    owners = rng.choice([(0.35, 0.3, 0.35), (0.35, 0.3, 0.35), (0.0, 0.5, 0.5), (0.5, 0.0, 0.5), (0.1, 0.1, 0.8), (0.45, 0.45, 0.1)])
    base = rng.random()
    if base < 0.3:
        gd = gen_tiny_branch(rng, nmax=nmax)
    elif base < 0.65:
        gd = gen_layered(rng, rng.randint(3, nmax), back=0.0, owners=owners)
    else:
        gd = None
        for _ in range(40):
            gd = gen_layered(rng, rng.randint(4, nmax), back=rng.choice([0.2, 0.4]), owners=owners)
            if is_stop(gd):
                break
            gd = None
        if gd is None:
            gd = gen_layered(rng, rng.randint(3, nmax), back=0.0, owners=owners)
    players = list(gd["players"])
    tl = [list(t) for t in gd["transition_list"]]
    rewards = list(gd["rewards"])
    finals = list(gd["final_states"])
    n = len(players)
    feats = []
    g = to_oracle(gd)
    # identical parallel probabilistic edges
    if rng.random() < 0.35:
        cands = [s for s in range(n) if players[s] == PR and not g.absorbing(s)]
        for s in rng.sample(cands, min(len(cands), 2)):
            i = rng.randrange(len(tl[s]))
            p, t = tl[s][i]
            tl[s][i:i + 1] = [(p / 2, t), (p / 2, t)]
        feats.append("parallel")
    # a distribution that is exact as rationals but whose double sum misses 1.0 by an ulp
    if rng.random() < 0.3:
        cands = [s for s in range(n) if players[s] == PR and not g.absorbing(s) and len(tl[s]) == 3]
        for s in rng.sample(cands, min(len(cands), 2)):
            ps = list(rng.choice(ULP_OFF))
            rng.shuffle(ps)
            if abs(sum(float(p) for p in ps) - 1.0) > 0:
                tl[s] = [(p, t) for p, (_, t) in zip(ps, tl[s])]
        feats.append("ulpsum")
    # a branch listed with probability 0 (into any state)
    if rng.random() < 0.25:
        cands = [s for s in range(n) if players[s] == PR and not g.absorbing(s)]
        for s in rng.sample(cands, min(len(cands), 1)):
            tl[s].insert(rng.randrange(len(tl[s]) + 1), (F(0), rng.randrange(n)))
        feats.append("zeroprob")
    # repeated labels
    if rng.random() < 0.3:
        for s in range(n):
            if players[s] != PR and len(tl[s]) >= 2 and rng.random() < 0.6:
                i, j = rng.sample(range(len(tl[s])), 2)
                tl[s][j] = (tl[s][i][0], tl[s][j][1])
        feats.append("duplabels")
    # the empty action name
    if rng.random() < 0.25:
        labs = sorted({a for s in range(n) if players[s] != PR for a, _ in tl[s]})
        if labs:
            if rng.random() < 0.5:
                # every forced move (player state with a single action) is called "": the empty name lies on forced paths
                tl = [[("", t) for _, t in tr] if players[s] != PR and len(tr) == 1 else tr for s, tr in enumerate(tl)]
            else:
                victim = rng.choice(labs)
                tl = [[(("" if a == victim else a), t) for a, t in tr] if players[s] != PR else tr for s, tr in enumerate(tl)]
            feats.append("emptylabel")
    # extra non-absorbing finals, order, repetition
    if rng.random() < 0.25:
        inner = [s for s in range(1, n) if not g.absorbing(s) and s not in finals]
        for s in rng.sample(inner, min(len(inner), rng.choice([1, 2]))):
            finals.append(s)
        rng.shuffle(finals)
        if rng.random() < 0.4:
            finals.insert(rng.randrange(len(finals) + 1), rng.choice(finals))
        feats.append("nonabsfinal")
    out = {"rewards": rewards, "players": players, "transition_list": tl, "final_states": finals}
    out["_features"] = feats
    return out


def is_stop(gd):
    return oracle.is_stopping(to_oracle(gd))[0]


def _small_options(n):
    h, q, tq = F(1, 2), F(1, 4), F(3, 4)
    pr = [[(F(1), 0)]]
    pl = [[("a", 0)]]
    if n == 2:
        pr += [[(F(1), 1)], [(h, 0), (h, 1)], [(h, 1), (h, 0)], [(q, 0), (tq, 1)], [(tq, 0), (q, 1)], [(h, 0), (h, 0)], [(h, 1), (h, 1)]]
        pl += [[("a", 1)], [("a", 0), ("b", 1)], [("a", 1), ("b", 0)], [("a", 0), ("b", 0)], [("a", 1), ("b", 1)], [("a", 0), ("a", 1)]]
    else:
        pl += [[("a", 0), ("b", 0)]]
    return [(PR, t) for t in pr] + [(P1, t) for t in pl] + [(P2, t) for t in pl]


def small_game_count():
    c1 = len(_small_options(1)) * 1 * 3
    o2 = len(_small_options(2))
    return c1 + o2 * o2 * 4 * 9


def small_game(index):
    """The index-th game of the complete enumeration of all games with one or two states over a small alphabet of owners,
    transition lists (self-loops, parallel edges, repeated labels), final lists (order, both states) and rewards 0..2."""
    o1 = _small_options(1)
    c1 = len(o1) * 3
    if index < c1:
        owner, tr = o1[index // 3]
        return {"rewards": [F(index % 3)], "players": [owner], "transition_list": [list(tr)], "final_states": [0]}
    index -= c1
    o2 = _small_options(2)
    r = index % 9; index //= 9
    f = index % 4; index //= 4
    b = index % len(o2); a = index // len(o2)
    finals = [[0], [1], [0, 1], [1, 0]][f]
    return {"rewards": [F(r // 3), F(r % 3)], "players": [o2[a][0], o2[b][0]], "transition_list": [list(o2[a][1]), list(o2[b][1])],
            "final_states": finals}


def gen_vslow(rng, variant=None):
    """A retry state X with a self-loop of probability 0.9999 (or 1 - 2^-14): value iteration legitimately needs 5*10^4 .. 2*10^5
    sweeps.  'reach': a chooser between X (value 1) and an option worth 0.9 / 0.99; 'reward': Player 2 chooses between X (exact
    value r/(1-p)) and an option 0.1 % cheaper.  Any cap on the number of sweeps below that shows as a wrong choice / value."""
    variant = variant or rng.choice(["reach", "reward"])
    p = rng.choice([F(9999, 10000), 1 - F(1, 2 ** 14)]) if variant == "reward" else F(9999, 10000)
    r = F(rng.randint(1, 3))
    # 0 chooser, 1 X, 2 competitor, 3 final, 4 sink
    x_tr = [(p, 1), (1 - p, 3)]
    if rng.random() < 0.5:
        x_tr.reverse()
    if variant == "reach":
        q = rng.choice([F(9, 10), F(99, 100), F(999, 1000)])
        owner = rng.choice([P1, P2])
        comp_tr, comp_rew = [(q, 3), (1 - q, 4)], F(rng.randint(0, 5))
    else:
        owner = P2
        comp_tr, comp_rew = [(F(1), 3)], (r / (1 - p)) * (1 - F(1, 1000))
    c0 = [("a", 1), ("b", 2)]
    if rng.random() < 0.5:
        c0.reverse()
    gd = {"rewards": [F(0), r, comp_rew, F(0), F(0)], "players": [owner, PR, PR, PR, PR],
          "transition_list": [c0, x_tr, comp_tr, [(F(1), 3)], [(F(1), 4)]], "final_states": [3]}
    return renumber_random(rng, gd)


def gen_tiny_players(rng):
    """Like gen_tiny, with single-action Player-1 / Player-2 states (carrying rewards) between the tiny probabilistic steps, numbered
    along the flow: when the sweeps stop, a player state may still hold exactly 0 although its successor is already positive."""
    players, tl, rewards = [], [], []
    steps = rng.randint(1, 3)
    seq = []
    for i in range(steps):
        if rng.random() < 0.7:
            seq.append("player")
        seq.append("tiny")
    if rng.random() < 0.5:
        seq.append("player")
    direct0 = rng.random() < 0.5 and len(seq) >= 2
    if direct0:
        seq[0] = "tiny0"       # the initial state also has a tiny DIRECT branch to the final state: it is positive after the first sweep
    n = len(seq) + 2
    final, sink = n - 2, n - 1
    for i, kind in enumerate(seq):
        nxt = i + 1 if i + 1 < len(seq) else final
        if kind == "tiny0":
            p0 = rng.choice([F(1, 10 ** 7), F(3, 10 ** 7), F(1, 10 ** 8)])
            q = rng.choice([F(1, 2), F(1, 4)])
            tr = [(p0, final), (q, nxt), (1 - p0 - q, sink)]
            rng.shuffle(tr)
            players.append(PR); tl.append(tr); rewards.append(rand_reward(rng, 5))
        elif kind == "player":
            players.append(rng.choice([P1, P2])); tl.append([("go", nxt)]); rewards.append(F(rng.randint(1, 9)))
        else:
            p = rng.choice([F(1, 10), F(1, 1000), F(1, 10 ** 4), F(1, 10 ** 7)])
            tr = [(p, nxt), (1 - p, sink)]
            if rng.random() < 0.5:
                tr.reverse()
            players.append(PR); tl.append(tr); rewards.append(rand_reward(rng, 5))
    players += [PR, PR]
    tl += [[(F(1), final)], [(F(1), sink)]]
    rewards += [F(0), F(0)]
    return {"rewards": rewards, "players": players, "transition_list": tl, "final_states": [final]}


def gen_half_cell(rng):
    """The initial value is a sum of tiny branches that lands within an ulp of 5e-7 (half a rounding cell at 6 digits): the order in
    which the branches are listed decides on which side the float sum falls."""
    parts = rng.choice([[F(1, 10 ** 8), F(11, 10 ** 8), F(38, 10 ** 8)], [F(2, 10 ** 8), F(13, 10 ** 8), F(35, 10 ** 8)],
                        [F(1, 10 ** 7), F(1, 10 ** 7), F(3, 10 ** 7)], [F(15, 10 ** 8), F(35, 10 ** 8)]])
    parts = list(parts)
    rng.shuffle(parts)
    k = len(parts)
    tr = [(p, 1) for p in parts] + [(1 - sum(parts), 2)]
    if rng.random() < 0.5:
        tr = [tr[-1]] + tr[:-1]
    return {"rewards": [rand_reward(rng, 5), F(0), F(0)], "players": [PR, PR, PR],
            "transition_list": [tr, [(F(1), 1)], [(F(1), 2)]], "final_states": [1]}


def gen_late(rng):
    """A state that first receives two tiny increments (1e-14 .. 1e-12, through short side branches) and its main contribution only
    several sweeps later (through a chain numbered against the sweep order)."""
    e1, e2 = rng.choice([(F(1, 10 ** 13), F(1, 10 ** 13)), (F(3, 10 ** 13), F(1, 10 ** 14)), (F(5, 10 ** 13), F(2, 10 ** 13))])
    k = rng.randint(3, 8)
    # 0 = S ; 1..k chain ; k+1 = M ; k+2 final ; k+3 sink
    final, sink, M = k + 2, k + 3, k + 1
    main = rng.choice([F(1), F(1, 2), F(3, 4)])
    players = [PR]
    tl = [[(e1, final), (e2, M), (1 - e1 - e2, 1)]]
    rewards = [F(rng.randint(0, 3))]
    for i in range(1, k + 1):
        nxt = i + 1 if i < k else final
        owner = rng.choice([PR, P1, P2])
        if i == k and main != 1:
            players.append(PR); tl.append([(main, final), (1 - main, sink)])
        elif owner == PR:
            players.append(PR); tl.append([(F(1), nxt)])
        else:
            players.append(owner); tl.append([("go", nxt)])
        rewards.append(F(rng.randint(0, 3)))
    players += [PR, PR, PR]
    tl += [[(F(1), final)], [(F(1), final)], [(F(1), sink)]]
    rewards += [F(0), F(0), F(0)]
    rng.shuffle(tl[0])
    return {"rewards": rewards, "players": players, "transition_list": tl, "final_states": [final]}


def gen_empty_label(rng):
    """Every forced move (player state with one action) is called "" - a legal action name - and so is one action of some state
    with a real choice."""
    gd = gen_acy(rng, nmax=10, owners=(0.4, 0.35, 0.25), max_out=3) if rng.random() < 0.6 else \
        (gen_cyc(rng, nmax=10, owners=(0.4, 0.35, 0.25), max_out=3) or gen_acy(rng, nmax=10))
    tl = []
    for s, tr in enumerate(gd["transition_list"]):
        if gd["players"][s] == PR:
            tl.append(list(tr))
        elif len(tr) == 1:
            tl.append([("", tr[0][1])])
        elif rng.random() < 0.4:
            i = rng.randrange(len(tr))
            tl.append([(("" if j == i else a), t) for j, (a, t) in enumerate(tr)])
        else:
            tl.append(list(tr))
    out = dict(gd)
    out["transition_list"] = tl
    return out


def gen_no_reach(rng):
    """No non-final state can reach a final state: the finals are isolated (or every state is final)."""
    gd = gen_acy(rng, nmax=8) if rng.random() < 0.5 else (gen_cyc(rng, nmax=8) or gen_acy(rng, nmax=8))
    g = to_oracle(gd)
    n = g.n
    players, tl, rewards = list(gd["players"]), [list(t) for t in gd["transition_list"]], list(gd["rewards"])
    finals = [f for f in gd["final_states"] if g.absorbing(f)]
    if not finals:
        return None
    if rng.random() < 0.2:
        # every state is final and absorbing
        k = rng.randint(1, 4)
        return {"rewards": [F(0)] * k, "players": [PR] * k, "transition_list": [[(F(1), i)] for i in range(k)], "final_states": list(range(k))}
    sinks = [s for s in range(n) if g.absorbing(s) and s not in gd["final_states"]]
    if not sinks:
        players.append(PR); rewards.append(F(0)); tl.append([(F(1), len(players) - 1)]); sinks = [len(players) - 1]
    z = sinks[0]
    fs = set(gd["final_states"])
    for s in range(n):
        if s in fs:
            continue
        tl[s] = [(a, z if t in fs else t) for a, t in tl[s]]
    return {"rewards": rewards, "players": players, "transition_list": tl, "final_states": finals}


GAPS = [F(0), F(1, 10 ** 9), F(1, 10 ** 8), F(1, 10 ** 7), F(3, 10 ** 7), F(4, 10 ** 7), F(6, 10 ** 7), F(9, 10 ** 7), F(12, 10 ** 7),
        F(2, 10 ** 6), F(3, 10 ** 6), F(5, 10 ** 6), F(8, 10 ** 6), F(15, 10 ** 6), F(1, 10 ** 4)]
GAP_BASES = [F(1, 2), F(1, 3), F(7, 10), F(1), F(5000004, 10 ** 7), F(123456, 10 ** 6), F(9, 10), F(1, 4)]


def gen_gap(rng):
    """A Player-1 or Player-2 chooser whose options have reachability values base - gap_i with gaps spread over the decades around
    the solver's resolution (0, 1e-9 .. 1e-4; 6 digits, threshold 1e-6), in any listing order, each option carrying its own reward.
    The values are exact after one or two sweeps, so what is reported for the chooser is exactly the max / min of its successors:
    a comparison that rounds, or takes the first of several rounded-equal successors, shows as an excess over the true value; gaps
    above the tolerance must be separated in the strategies."""
    base = rng.choice(GAP_BASES)
    k = rng.randint(2, 4)
    gaps = [rng.choice(GAPS) for _ in range(k)]
    if rng.random() < 0.7:
        gaps[rng.randrange(k)] = F(0)
    players, tl, rewards = [None], [None], [F(rng.randint(0, 3))]
    final, sink = 1, 2
    players += [PR, PR]; tl += [[(F(1), 1)], [(F(1), 2)]]; rewards += [F(0), F(0)]
    opts = []
    for i, gp in enumerate(gaps):
        q = base - gp
        if q <= 0:
            q = base
        s = len(players)
        if q == 1:
            owner = rng.choice([PR, P1, P2])
            players.append(owner); tl.append([(F(1), final)] if owner == PR else [("go", final)])
        else:
            tr = [(q, final), (1 - q, sink)]
            if rng.random() < 0.5:
                tr.reverse()
            players.append(PR); tl.append(tr)
        rewards.append(F(rng.choice([0, 1, 2, 5, 9, 40])))
        if rng.random() < 0.25:
            # one more forced hop in front of the option
            h = len(players)
            owner = rng.choice([PR, P1, P2])
            players.append(owner); tl.append([(F(1), s)] if owner == PR else [("go", s)]); rewards.append(F(rng.randint(0, 3)))
            s = h
        opts.append((LABELS[i], s))
    rng.shuffle(opts)
    chooser = rng.choice([P1, P2, P2])
    r = rng.random()
    if r < 0.6:
        players[0], tl[0] = chooser, opts
    else:
        c = len(players)
        players.append(chooser); tl.append(opts); rewards.append(F(rng.randint(0, 3)))
        if r < 0.8:
            players[0], tl[0] = PR, [(F(1, 2), c), (F(1, 2), rng.choice([final, sink, c]))]
        else:
            other = rng.choice([P1, P2])
            players[0], tl[0] = other, [("x", c), ("y", rng.choice([final, sink]))]
    gd = {"rewards": rewards, "players": players, "transition_list": tl, "final_states": [final]}
    return renumber_random(rng, gd) if rng.random() < 0.7 else gd


def gen_gap_loop(rng):
    """A Player-1 state S with a good action (value q) and an action that returns to S (directly or through one more state) except
    for a leak eps into a dead sink: its value is (1-eps)*v(S), worse than the good action by eps*q, spread over 1e-8 .. 1e-4.  If
    the worse action is kept as reachability-optimal, pruning removes the leak and leaves a probability-1 cycle (rewarded or not)."""
    q = rng.choice([F(1, 2), F(1, 3), F(7, 10), F(1), F(1, 4), F(9, 10)])
    gap = rng.choice([F(1, 10 ** 8), F(1, 10 ** 7), F(4, 10 ** 7), F(6, 10 ** 7), F(9, 10 ** 7), F(12, 10 ** 7), F(2, 10 ** 6), F(3, 10 ** 6),
                      F(4, 10 ** 6), F(6, 10 ** 6), F(9, 10 ** 6), F(2, 10 ** 5), F(1, 10 ** 4)])
    eps = gap / q
    # 0 S, 1 final, 2 sink, 3 good, 4 back
    players = [P1, PR, PR]
    tl = [None, [(F(1), 1)], [(F(1), 2)]]
    rewards = [F(rng.randint(0, 2)), F(0), F(0)]
    good = 3
    if q == 1:
        players.append(PR); tl.append([(F(1), 1)])
    else:
        tr = [(q, 1), (1 - q, 2)]
        if rng.random() < 0.5:
            tr.reverse()
        players.append(PR); tl.append(tr)
    rewards.append(F(rng.randint(0, 5)))
    back = 4
    target = 0
    if rng.random() < 0.4:
        # the way back passes through one more forced state
        target = 5
    tr = [(1 - eps, target), (eps, 2)]
    if rng.random() < 0.5:
        tr.reverse()
    players.append(PR); tl.append(tr); rewards.append(F(rng.choice([0, 1, 1, 3])))
    if target == 5:
        owner = rng.choice([PR, P1, P2])
        players.append(owner); tl.append([(F(1), 0)] if owner == PR else [("go", 0)]); rewards.append(F(rng.choice([0, 1])))
    opts = [("a", good), ("b", back)]
    if rng.random() < 0.3:
        opts.append(("c", 2))
    rng.shuffle(opts)
    tl[0] = opts
    gd = {"rewards": rewards, "players": players, "transition_list": tl, "final_states": [1]}
    if rng.random() < 0.4:
        # the chooser is not the initial state
        n = len(players)
        sh = {"rewards": [F(rng.randint(0, 2))] + rewards, "players": [rng.choice([PR, P1, P2])] + players,
              "transition_list": [None] + [[(a, t + 1) for a, t in x] for x in tl], "final_states": [2]}
        sh["transition_list"][0] = [(F(1), 1)] if sh["players"][0] == PR else [("in", 1)]
        gd = sh
    gd = renumber_random(rng, gd) if rng.random() < 0.6 else gd
    # the input game's T_max is ~1/eps (1e4 .. 1e8) only because of the returning action, which a correct solve discards after a few
    # sweeps: budgets derived from T_max would cost minutes per non-terminating case, so this class carries its own sweep cap
    gd["_sweep_cap"] = 8000
    return gd


def gen_corridor(rng):
    """A corridor of forced moves (zero rewards) in front of a 'gate' where several quantities change by very different amounts in
    the same sweep: the play reaches the goal with probability p, is lost with 1-p-q (a dead branch, pruned), and with a tiny
    probability q passes a bonus room first.  Numbered along the corridor the news travels one state per sweep, so each sweep changes
    exactly one state: its expected reward by ~q (below the threshold) and - with pruning - its diagnostic probability by ~1-p."""
    k = rng.randint(2, 8)
    p = rng.choice([F(1, 2), F(1, 3), F(9, 10), F(1, 10)])
    q = rng.choice([F(1, 10 ** 7), F(1, 10 ** 8), F(3, 10 ** 7), F(1, 10 ** 9), F(1, 10 ** 6), F(1, 10 ** 3)])
    variant = rng.choice(["bonus", "bonus", "p2split"])
    players, tl, rewards = [], [], []
    gate = k + 1
    for i in range(k + 1):
        owner = rng.choice([PR, PR, P1, P2]) if i else rng.choice([P1, PR, P2])
        players.append(owner); tl.append([(F(1), i + 1)] if owner == PR else [("go", i + 1)])
        rewards.append(F(rng.choice([0, 0, 0, 5])) if i == 0 else F(0))
    bonus, good, bad = gate + 1, gate + 2, gate + 3
    if variant == "bonus":
        tr = [(p, good), (1 - p - q, bad), (q, bonus)]
        rng.shuffle(tr)
        players.append(PR); tl.append(tr); rewards.append(F(0))
        players.append(PR); tl.append([(F(1), good)]); rewards.append(F(rng.choice([1, 2, 5])))
    else:
        # Player 2 at the gate: the reach-minimal action and the reward-minimal action differ
        players.append(P2); rewards.append(F(0))
        players.append(PR); rewards.append(F(rng.choice([1, 2, 5])))
        tl.append([("r", bonus), ("s", good)] if rng.random() < 0.5 else [("s", good), ("r", bonus)])
        tr = [(p, good), (1 - p, bad)]
        rng.shuffle(tr)
        tl.append(tr)
    players += [PR, PR]; tl += [[(F(1), good)], [(F(1), bad)]]; rewards += [F(0), F(0)]
    gd = {"rewards": rewards, "players": players, "transition_list": tl, "final_states": [good]}
    r = rng.random()
    if r < 0.4:
        return gd                                   # numbered along the corridor
    if r < 0.7:
        n = len(players)
        return permute(gd, [0] + [n - i for i in range(1, n)])      # against it
    return renumber_random(rng, gd)


def gen_big_rewards(rng):
    """A chooser between reach-equivalent options whose rewards are LARGE and nearly equal: different by far more than the solver's
    absolute resolution (1e-6) but by less than 1e-9 relatively (1e12+1 vs 1e12, 50000.00002 vs 50000)."""
    R, g = rng.choice([(F(10 ** 12), F(1)), (F(10 ** 12), F(100)), (F(50000), F(2, 10 ** 5)), (F(10 ** 9), F(1, 2)), (F(10 ** 15), F(8)),
                       (F(10 ** 7), F(1, 200)), (F(2 ** 40), F(1, 4))])
    q = rng.choice([F(1), F(1), F(1, 2)])
    chooser = rng.choice([P1, P2])
    players = [chooser, PR, PR]
    tl = [None, [(F(1), 1)], [(F(1), 2)]]
    rewards = [F(rng.randint(0, 3)), F(0), F(0)]
    opts = []
    k = rng.randint(2, 3)
    extra = [F(0), g] + [rng.choice([F(0), g, 2 * g])] * (k - 2)
    rng.shuffle(extra)
    for i in range(k):
        s = len(players)
        players.append(PR); rewards.append(R + extra[i])
        tr = [(F(1), 1)] if q == 1 else [(q, 1), (1 - q, 2)]
        if rng.random() < 0.5:
            tr.reverse()
        tl.append(tr)
        opts.append((LABELS[i], s))
    rng.shuffle(opts)
    tl[0] = opts
    gd = {"rewards": rewards, "players": players, "transition_list": tl, "final_states": [1]}
    if rng.random() < 0.5:
        sh = {"rewards": [F(rng.randint(0, 2))] + rewards, "players": [rng.choice([PR, P1, P2])] + players,
              "transition_list": [None] + [[(a, t + 1) for a, t in x] for x in tl], "final_states": [2]}
        sh["transition_list"][0] = [(F(1), 1)] if sh["players"][0] == PR else [("in", 1)]
        gd = sh
    return renumber_random(rng, gd) if rng.random() < 0.5 else gd


DIGIT_LABELS = ["x", "1x", "2x", "0x", "x1", "x2", "1", "2", "12", "11x", "x0", "3x", "10", "01", "1x1", ""]


def digit_renaming(rng, gd, an=None):
    """An injective renaming of the action labels into names made of digits and one letter, such that concatenating a state index
    and a name (in either order) is ambiguous: state 1 + "2x" reads like state 12 + "x".  If the exact values are at hand the
    renaming is aimed: a NON-optimal action of a Player-1 state i becomes d+"x" (or "x"+d) where state j = i||d (or d||i) has an
    optimal action that becomes "x"."""
    labs = all_labels(gd)
    n = len(gd["players"])
    ren = {}
    if an is not None and rng.random() < 0.8:
        try:
            v = an.reach["v"]
        except oracle.OracleInconclusive:
            v = None
        cands = []
        if v is not None:
            for i in range(n):
                if gd["players"][i] != P1:
                    continue
                tr = gd["transition_list"][i]
                best = max(v[t] for _, t in tr)
                bad = [a for a, t in tr if v[t] < best]
                if not bad:
                    continue
                for j in range(n):
                    if j == i or gd["players"][j] == PR:
                        continue
                    si, sj = str(i), str(j)
                    trj = gd["transition_list"][j]
                    ext = (max if gd["players"][j] == P1 else min)(v[t] for _, t in trj)
                    good = [a for a, t in trj if v[t] == ext]
                    for mode in ("prefix", "suffix"):
                        if mode == "prefix" and sj.startswith(si) and len(sj) > len(si):
                            d = sj[len(si):]
                        elif mode == "suffix" and sj.endswith(si) and len(sj) > len(si):
                            d = sj[:len(sj) - len(si)]
                        else:
                            continue
                        for a in bad:
                            for b in good:
                                if a != b:
                                    cands.append((a, b, d, mode))
        if cands:
            a, b, d, mode = rng.choice(cands)
            ren[b] = "x"
            ren[a] = d + "x" if mode == "prefix" else "x" + d
    pool = [l for l in DIGIT_LABELS if l not in ren.values()]
    rng.shuffle(pool)
    for l in labs:
        if l not in ren:
            ren[l] = pool.pop() if pool else "y%d" % len(ren)
    return ren


def gen_digit_labels(rng, nmin=11, nmax=16):
    """A random stopping game with 11-16 states whose action names are digits / digit-letter mixes (legal names)."""
    for _ in range(50):
        n = rng.randint(nmin, nmax)
        gd = gen_layered(rng, n, back=0.0 if rng.random() < 0.6 else rng.choice([0.2, 0.35]), owners=(0.45, 0.3, 0.25), max_out=3)
        if len(gd["players"]) < nmin or not oracle.is_stopping(to_oracle(gd))[0]:
            continue
        from . import analysis
        an = analysis.Analysis(gd)
        return rename_actions(gd, digit_renaming(rng, gd, an))
    return None


def gen_retry(rng):
    """A stopping cycle THROUGH THE INITIAL STATE: some Player-2 / Player-1 / probabilistic state X has a 'try again' move back to
    state 0 which is its reward-optimal (and reach-optimal) choice, next to a 'pay' move to an expensive / cheap exit.  State index
    0 then occurs as a successor in every role (selected successor, non-selected successor, probabilistic branch)."""
    p = rng.choice([F(1, 2), F(1, 3), F(3, 4), F(9, 10)])
    leak = rng.choice([F(0), F(0), F(1, 10)])
    kind = rng.choice([P2, P2, P1, PR])
    # 0 start, 1 X, 2 exit E, 3 final, 4 sink
    players = [PR, kind, PR, PR, PR]
    rewards = [F(rng.randint(0, 4)), F(rng.randint(0, 4)), None, F(0), F(0)]
    tr0 = [(p * (1 - leak), 1), ((1 - p) * (1 - leak), 3)] + ([(leak, 4)] if leak else [])
    rng.shuffle(tr0)
    if kind == P2:
        rewards[2] = F(rng.randint(200, 900))          # paying is dear: retrying is reward-minimal
        trx = [("retry", 0), ("pay", 2)]
    elif kind == P1:
        rewards[2] = F(0)
        rewards[0] = F(rng.randint(1, 4))              # retrying collects state 0's reward again: reward-maximal
        trx = [("retry", 0), ("pay", 2)]
    else:
        rewards[2] = F(rng.randint(0, 9))
        a = rng.choice([F(1, 2), F(1, 4)])
        trx = [(a, 0), (1 - a, 2)]
    if rng.random() < 0.5:
        trx.reverse()
    tl = [tr0, trx, [(F(1), 3)], [(F(1), 3)], [(F(1), 4)]]
    if leak and kind != PR and rng.random() < 0.5:
        # the exit is also worse for reachability: retrying is the single reach-optimal move of a Player-1 state / the exit the single
        # reach-minimal move of a Player-2 state
        tl[2] = [(F(1, 2), 3), (F(1, 2), 4)]
    if rng.random() < 0.4:
        # state 0 is a player state with a forced move into the old start
        n = len(players)
        players.append(players[0]); rewards.append(rewards[0]); tl.append(tl[0])
        owner = rng.choice([P1, P2])
        players[0], tl[0], rewards[0] = owner, [("go", n)], F(rng.randint(0, 2))
    gd = {"rewards": rewards, "players": players, "transition_list": tl, "final_states": [3]}
    return renumber_random(rng, gd) if rng.random() < 0.5 else gd


def gen_final_reps(rng):
    """Any game, with its final states WRITTEN differently: every final state listed 1-4 times, in sorted / reversed / shuffled
    order, as a list or a tuple; in a third of the cases the list has at least as many entries as the game has states, and a
    repeated final state is never the largest one.  The game (the SET of final states) is unchanged."""
    base = rng.choice(["G-ACY", "G-CYC", "G-DEAD", "G-ACYNF", "G-TIE", "G-LEX", "G-TINYB"])
    gd = None
    for _ in range(20):
        gd = gen_class(rng, base)
        if gd is not None:
            break
    if gd is None:
        return None
    fs = sorted(set(gd["final_states"]))
    n = len(gd["players"])
    reps = []
    for i, f in enumerate(fs):
        k = rng.choice([1, 2, 2, 3, 4])
        if i == 0 and len(fs) > 1:
            k = max(k, 2)                    # the smallest final state is repeated while larger ones exist
        reps += [f] * k
    if rng.random() < 0.35:
        while len(reps) < n + rng.randint(0, 2):
            reps.append(rng.choice(fs))
    order = rng.choice(["sorted", "reversed", "shuffled", "grouped"])
    if order == "sorted":
        reps.sort()
    elif order == "reversed":
        reps.sort(reverse=True)
    elif order == "shuffled":
        rng.shuffle(reps)
    out = dict(gd)
    out["final_states"] = reps
    if rng.random() < 0.4:
        out["_finals_tuple"] = True
    return out


CLASSES = ["G-ACY", "G-CYC", "G-SLOW", "G-EC", "G-DEAD", "G-TIE", "G-LEX", "G-TINY"]


def gen_class(rng, cls, **kw):
    """One game of the class (or None if the generator gave up)."""
    if cls == "G-ACY":
        return gen_acy(rng, **kw)
    if cls == "G-ACYNF":
        return gen_acy(rng, nonabs_final=1.0, **kw)
    if cls == "G-CYC":
        return gen_cyc(rng, **kw)
    if cls == "G-CYCNF":
        return gen_cyc(rng, nonabs_final=1.0, **kw)
    if cls == "G-SLOW":
        return gen_slow(rng, **kw)
    if cls == "G-EC":
        return gen_ec(rng, **kw)
    if cls == "G-DEAD":
        L = rng.randint(1, 5)
        pattern = [rng.random() < 0.5 for _ in range(L)]
        return gen_dead(rng, rng.choice([P1, PR]), pattern)[0]
    if cls == "G-TIE":
        return gen_tie(rng, cyclic=False, **kw)
    if cls == "G-TIEC":
        return gen_tie(rng, cyclic=True, **kw) if rng.random() < 0.5 else gen_twin_rings(rng)
    if cls == "G-LEX":
        return gen_lex(rng, **kw)
    if cls == "G-TINY":
        return gen_tiny(rng)
    if cls == "G-NEAR":
        return gen_near_tie(rng, cyclic=False)
    if cls == "G-NEARC":
        return gen_near_tie(rng, cyclic=True)
    if cls == "G-RNEAR":
        return gen_reward_near(rng)
    if cls == "G-AUXFAST":
        return gen_aux_fast(rng)
    if cls == "G-DUPL":
        return gen_dup_labels(rng)
    if cls == "G-MIX":
        gd = gen_mix(rng)
        gd.pop("_features", None)
        return gd
    if cls == "G-SMALLX":
        return small_game(rng.randrange(small_game_count()))
    if cls == "G-VSLOW":
        return gen_vslow(rng)
    if cls == "G-VSLOWR":
        return gen_vslow(rng, "reach")
    if cls == "G-HALF":
        return gen_half_cell(rng)
    if cls == "G-LATE":
        return gen_late(rng)
    if cls == "G-EMPTY":
        return gen_empty_label(rng)
    if cls == "G-NOREACH":
        return gen_no_reach(rng)
    if cls == "G-FINREP":
        return gen_final_reps(rng)
    if cls == "G-RETRY":
        return gen_retry(rng)
    if cls == "G-GAP":
        return gen_gap(rng)
    if cls == "G-GAPLOOP":
        return gen_gap_loop(rng)
    if cls == "G-CORR":
        return gen_corridor(rng)
    if cls == "G-BIGR":
        return gen_big_rewards(rng)
    if cls == "G-DIGIT":
        return gen_digit_labels(rng)
    if cls == "G-TINYB":
        return gen_tiny_branch(rng, **kw)
    if cls == "G-INIT0F":
        return gen_init_final(rng, absorbing=True)
    if cls == "G-INIT0NF":
        return gen_init_final(rng, absorbing=False)
    raise KeyError(cls)


def case_rng(seed, pid, cls, index):
    return random.Random("%s/%s/%s/%s" % (seed, pid, cls, index))
