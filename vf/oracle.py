"""Exact (fractions.Fraction) oracle for small turn-based stochastic games, with certificates.

Independent of the code under test: shares no code with /repo, uses linear solves and policy
iteration (never the solver's Gauss-Seidel sweeps) and certifies every value it returns by an
exact fixed-point + zero-set argument (DESIGN 2.1-2.4).  Nothing here imports the repository.
"""
from fractions import Fraction as F

P1 = "Player 1"
P2 = "Player 2"
PR = "Probabilistic"


class OracleInconclusive(Exception):
    """The oracle could not certify a value (never a verdict about the code under test)."""


class Game:
    """players[s] in {P1,P2,PR}; tl[s] = [(label|Fraction, target)]; finals: set; rewards: [Fraction]."""

    def __init__(self, players, tl, finals, rewards=None):
        self.n = len(players)
        self.players = list(players)
        # a probabilistic transition listed with probability 0 is never taken: it is not an edge of the game
        self.tl = [[tr for tr in t if not (players[s] == PR and not isinstance(tr[0], str) and tr[0] == 0)] for s, t in enumerate(tl)]
        self.finals = set(finals)
        self.rewards = [F(r) for r in rewards] if rewards is not None else [F(0)] * self.n

    def targets(self, s):
        return [t for _, t in self.tl[s]]

    def is_player(self, s):
        return self.players[s] != PR

    def absorbing(self, s):
        """terminal (no transition) or every transition goes back to s."""
        return all(t == s for _, t in self.tl[s])


# ----------------------------------------------------------------------------- graph algorithms

def back_reach(g):
    """States from which some final state is reachable along transitions (finals included)."""
    pred = [[] for _ in range(g.n)]
    for s in range(g.n):
        for _, t in g.tl[s]:
            pred[t].append(s)
    seen = set(g.finals)
    stack = list(seen)
    while stack:
        v = stack.pop()
        for u in pred[v]:
            if u not in seen:
                seen.add(u)
                stack.append(u)
    return seen


def positive_set(g, sigma=None):
    """W = {s : max-min reachability value > 0}.  Least set containing the finals and closed under:
    Player-1 / probabilistic state with SOME successor in W, Player-2 state with ALL successors in W.
    sigma (optional): dict s -> transition position, fixes Player 1's choice (MDP for Player 2)."""
    n = g.n
    pred = [[] for _ in range(n)]
    need = [0] * n
    for s in range(n):
        if s in g.finals:
            continue
        tg = g.targets(s)
        if g.players[s] == P1 and sigma is not None and tg:
            tg = [tg[sigma[s]]]
        tset = set(tg)
        need[s] = len(tset) if g.players[s] == P2 else (1 if tset else 0)
        if not tset:
            need[s] = -1  # terminal non-final: never in W
        for t in tset:
            pred[t].append(s)
    W = set(g.finals)
    stack = list(W)
    while stack:
        v = stack.pop()
        for u in pred[v]:
            if u in W or need[u] < 0:
                continue
            need[u] -= 1
            if need[u] <= 0:
                W.add(u)
                stack.append(u)
    return W


def is_stopping(g):
    """Every play is absorbed with probability 1, under all strategies, in absorbing/terminal states,
    and those carry no reward (terminal states are worth 0 by definition, their reward is ignored).
    Z = greatest set of non-absorbing states in which the two players together can stay forever:
    player state with some successor in Z, probabilistic state with all successors in Z.  Stopping iff Z empty."""
    A = {s for s in range(g.n) if g.absorbing(s)}
    Z = set(range(g.n)) - A
    changed = True
    while changed:
        changed = False
        for s in list(Z):
            tg = g.targets(s)
            if g.is_player(s):
                ok = any(t in Z for t in tg)
            else:
                ok = all(t in Z for t in tg)
            if not ok:
                Z.discard(s)
                changed = True
    if Z:
        return False, "end component " + str(sorted(Z)[:6])
    for s in A:
        if g.tl[s] and g.rewards[s] != 0:
            return False, "absorbing state %d has reward" % s
    return True, ""


def reachable_from(g, start=0, allowed=None):
    """Graph closure from start.  allowed: optional dict s -> list of transition positions."""
    seen = {start}
    stack = [start]
    while stack:
        v = stack.pop()
        tr = g.tl[v]
        idxs = range(len(tr)) if allowed is None or v not in allowed else allowed[v]
        for i in idxs:
            t = tr[i][1]
            if t not in seen:
                seen.add(t)
                stack.append(t)
    return seen


def has_cycle(g, ignore_self_absorbing=True):
    """True if the transition graph has a cycle other than absorbing self-loops."""
    color = [0] * g.n
    for root in range(g.n):
        if color[root]:
            continue
        stack = [(root, iter(g.targets(root)))]
        color[root] = 1
        while stack:
            v, it = stack[-1]
            adv = False
            for t in it:
                if t == v and ignore_self_absorbing and g.absorbing(v):
                    continue
                if color[t] == 1:
                    return True
                if color[t] == 0:
                    color[t] = 1
                    stack.append((t, iter(g.targets(t))))
                    adv = True
                    break
            if not adv:
                color[v] = 2
                stack.pop()
    return False


# ----------------------------------------------------------------------------- exact linear algebra

def gauss_solve(A, b):
    """Solve A x = b over Fractions. Returns x or None if singular."""
    n = len(A)
    M = [row[:] + [b[i]] for i, row in enumerate(A)]
    for c in range(n):
        piv = None
        for r in range(c, n):
            if M[r][c] != 0:
                piv = r
                break
        if piv is None:
            return None
        if piv != c:
            M[c], M[piv] = M[piv], M[c]
        pv = M[c][c]
        if pv != 1:
            M[c] = [x / pv if x != 0 else x for x in M[c]]
        rowc = M[c]
        for r in range(n):
            if r != c:
                f = M[r][c]
                if f != 0:
                    rr = M[r]
                    M[r] = [rr[k] - f * rowc[k] if rowc[k] != 0 else rr[k] for k in range(n + 1)]
    return [M[i][n] for i in range(n)]


def _chain_rows(g, choice):
    """rows[s] = {t: prob} of the Markov chain induced by choice (dict s -> transition position)."""
    rows = []
    for s in range(g.n):
        tr = g.tl[s]
        row = {}
        if tr:
            if g.is_player(s):
                t = tr[choice[s]][1]
                row[t] = F(1)
            else:
                for p, t in tr:
                    row[t] = row.get(t, F(0)) + F(p)
        rows.append(row)
    return rows


def _solve_on(U, rows, const, fixed):
    """x(s) = const(s) + sum_t rows[s][t] x(t) for s in U; x(t) = fixed[t] for t not in U."""
    U = sorted(U)
    pos = {s: i for i, s in enumerate(U)}
    m = len(U)
    A = [[F(0)] * m for _ in range(m)]
    b = [F(0)] * m
    for s in U:
        i = pos[s]
        A[i][i] += 1
        b[i] += const[s]
        for t, p in rows[s].items():
            if t in pos:
                A[i][pos[t]] -= p
            else:
                b[i] += p * fixed[t]
    x = gauss_solve(A, b)
    if x is None:
        return None
    return {s: x[pos[s]] for s in U}


def chain_reach(g, choice):
    """Exact probability of reaching a final in the chain induced by choice."""
    rows = _chain_rows(g, choice)
    pred = [[] for _ in range(g.n)]
    for s in range(g.n):
        if s in g.finals:
            continue
        for t in rows[s]:
            pred[t].append(s)
    can = set(g.finals)
    stack = list(can)
    while stack:
        v = stack.pop()
        for u in pred[v]:
            if u not in can:
                can.add(u)
                stack.append(u)
    fixed = {s: (F(1) if s in g.finals else F(0)) for s in range(g.n)}
    U = [s for s in can if s not in g.finals]
    const = {s: F(0) for s in U}
    sol = _solve_on(U, rows, const, fixed)
    if sol is None:
        raise OracleInconclusive("singular reach chain")
    v = [fixed[s] for s in range(g.n)]
    for s, x in sol.items():
        v[s] = x
    return v


def chain_total(g, choice, rew):
    """Exact expected total of rew in the chain.  Terminal states are worth 0 (their own rew ignored).
    Returns list of Fractions, or None if some state has infinite expectation."""
    rows = _chain_rows(g, choice)
    eff = [F(0) if not g.tl[s] else F(rew[s]) for s in range(g.n)]
    # states from which a positive-eff state is reachable in the chain
    pred = [[] for _ in range(g.n)]
    for s in range(g.n):
        for t in rows[s]:
            pred[t].append(s)
    can = {s for s in range(g.n) if eff[s] != 0}
    stack = list(can)
    while stack:
        v = stack.pop()
        for u in pred[v]:
            if u not in can:
                can.add(u)
                stack.append(u)
    fixed = {s: F(0) for s in range(g.n)}
    sol = _solve_on(can, rows, eff, fixed)
    if sol is None:
        return None
    v = [F(0)] * g.n
    for s, x in sol.items():
        if x < 0:
            return None
        v[s] = x
    return v


# ----------------------------------------------------------------------------- reachability value

def _float_vi_reach(g, W, sweeps):
    x = [1.0 if s in g.finals else 0.0 for s in range(g.n)]
    order = [s for s in range(g.n) if s in W and s not in g.finals]
    tl = [[(float(a) if g.players[s] == PR else a, t) for a, t in g.tl[s]] for s in range(g.n)]
    for _ in range(sweeps):
        diff = 0.0
        for s in order:
            if g.players[s] == PR:
                v = 0.0
                for p, t in tl[s]:
                    v += p * x[t]
            elif g.players[s] == P1:
                v = max(x[t] for _, t in tl[s])
            else:
                v = min(x[t] for _, t in tl[s])
            d = abs(v - x[s])
            if d > diff:
                diff = d
            x[s] = v
        if diff < 1e-14:
            break
    return x


def _attractor_rank(g, W):
    """rank[s] = round at which s entered W in the layered construction (distance-to-final proxy)."""
    rank = {s: 0 for s in g.finals}
    cur = set(g.finals)
    r = 0
    while True:
        r += 1
        new = set()
        for s in W:
            if s in cur:
                continue
            tg = g.targets(s)
            if not tg:
                continue
            if g.players[s] == P2:
                ok = all(t in cur for t in tg)
            else:
                ok = any(t in cur for t in tg)
            if ok:
                new.add(s)
        if not new:
            break
        for s in new:
            rank[s] = r
        cur |= new
    return rank


def reach_values(g, max_rounds=40, vi_sweeps=400):
    """Exact max-min reachability values with a certificate.
    Returns dict(v=[Fraction], W=set, sigma=dict, tau=dict, rounds=int)."""
    n = g.n
    W = positive_set(g)
    rank = _attractor_rank(g, W)
    x = _float_vi_reach(g, W, vi_sweeps)
    choice = {}
    for s in range(n):
        tr = g.tl[s]
        if not tr or not g.is_player(s):
            continue
        if g.players[s] == P1:
            best = max(x[t] for _, t in tr)
            cands = [i for i, (_, t) in enumerate(tr) if x[t] >= best - 1e-9]
            # tie-break towards the attractor: guarantees a proper strategy inside W
            choice[s] = min(cands, key=lambda i: (rank.get(tr[i][1], 10 ** 9), i))
        else:
            best = min(x[t] for _, t in tr)
            cands = [i for i, (_, t) in enumerate(tr) if x[t] <= best + 1e-9]
            choice[s] = min(cands, key=lambda i: (0 if tr[i][1] not in W else 1, i))
    # Player 1 states in W must move into W along decreasing rank at least when values tie at 0
    for s in range(n):
        if g.players[s] == P1 and s in W and s not in g.finals and g.tl[s]:
            if g.tl[s][choice[s]][1] not in W:
                choice[s] = min(range(len(g.tl[s])), key=lambda i: (rank.get(g.tl[s][i][1], 10 ** 9), i))
    for rounds in range(max_rounds):
        v = chain_reach(g, choice)
        switched = False
        for s in range(n):
            tr = g.tl[s]
            if s in g.finals or not tr or not g.is_player(s):
                continue
            cur = v[tr[choice[s]][1]]
            if g.players[s] == P1:
                bi, bv = choice[s], cur
                for i, (_, t) in enumerate(tr):
                    if v[t] > bv:
                        bi, bv = i, v[t]
            else:
                bi, bv = choice[s], cur
                for i, (_, t) in enumerate(tr):
                    if v[t] < bv:
                        bi, bv = i, v[t]
            if bi != choice[s]:
                choice[s] = bi
                switched = True
        if switched:
            continue
        # v is a fixed point of the full Bellman operator on player states; check everything exactly
        ok = True
        for s in range(n):
            tr = g.tl[s]
            if s in g.finals:
                ok &= (v[s] == 1)
            elif not tr:
                ok &= (v[s] == 0)
            elif g.players[s] == PR:
                ok &= (v[s] == sum(F(p) * v[t] for p, t in tr))
            elif g.players[s] == P1:
                ok &= (v[s] == max(v[t] for _, t in tr))
            else:
                ok &= (v[s] == min(v[t] for _, t in tr))
        sigma = {s: choice[s] for s in choice if g.players[s] == P1}
        Wsig = positive_set(g, sigma)
        zero = {s for s in range(n) if v[s] == 0}
        ok &= (zero == set(range(n)) - Wsig)
        ok &= (zero == set(range(n)) - W)
        if ok:
            tau = {s: choice[s] for s in choice if g.players[s] == P2}
            return {"v": v, "W": W, "sigma": sigma, "tau": tau, "rounds": rounds}
        # zero set mismatch: Player 1 loops inside W; redirect offending states towards the attractor
        fixed_any = False
        for s in range(n):
            if g.players[s] == P1 and s in W and s not in Wsig and g.tl[s]:
                tr = g.tl[s]
                best = max(v[t] for _, t in tr)
                cands = [i for i, (_, t) in enumerate(tr) if t in W]
                if cands:
                    ni = min(cands, key=lambda i: (rank.get(tr[i][1], 10 ** 9), i))
                    if ni != choice[s]:
                        choice[s] = ni
                        fixed_any = True
        if not fixed_any:
            break
    raise OracleInconclusive("reachability certificate not obtained")


# ----------------------------------------------------------------------------- total rewards

def _float_vi_total(g, rew, opt1, opt2, sweeps, allowed=None):
    x = [0.0] * g.n
    r = [0.0 if not g.tl[s] else float(rew[s]) for s in range(g.n)]
    tl = [[(float(a) if g.players[s] == PR else a, t) for a, t in g.tl[s]] for s in range(g.n)]
    for _ in range(sweeps):
        diff = 0.0
        for s in range(g.n):
            tr = tl[s]
            if not tr:
                continue
            if g.players[s] == PR:
                v = r[s]
                for p, t in tr:
                    v += p * x[t]
            else:
                idxs = range(len(tr)) if allowed is None or s not in allowed else allowed[s]
                vals = [x[tr[i][1]] for i in idxs]
                opt = opt1 if g.players[s] == P1 else opt2
                v = r[s] + (max(vals) if opt == "max" else min(vals))
            d = abs(v - x[s])
            if d > diff:
                diff = d
            x[s] = v
        if diff < 1e-13 or max(x) > 1e15:
            break
    return x


def opt_total(g, rew=None, opt1="max", opt2="min", allowed=None, max_rounds=60, vi_sweeps=300):
    """Exact optimal expected total reward when Player 1 plays opt1 and Player 2 plays opt2, with
    the exact Bellman equality as certificate (unique fixed point when every strategy pair is proper:
    callers check is_stopping first).  allowed: dict s -> list of permitted transition positions.
    Returns dict(v=[Fraction], choice=dict, rounds=int); raises OracleInconclusive otherwise."""
    n = g.n
    rew = g.rewards if rew is None else rew
    x = _float_vi_total(g, rew, opt1, opt2, vi_sweeps, allowed)

    def idxs_of(s):
        return list(range(len(g.tl[s]))) if allowed is None or s not in allowed else list(allowed[s])

    choice = {}
    for s in range(n):
        tr = g.tl[s]
        if not tr or not g.is_player(s):
            continue
        opt = opt1 if g.players[s] == P1 else opt2
        idxs = idxs_of(s)
        if not idxs:
            raise OracleInconclusive("player state %d without permitted action" % s)
        if opt == "max":
            choice[s] = max(idxs, key=lambda i: (x[tr[i][1]], -i))
        else:
            choice[s] = min(idxs, key=lambda i: (x[tr[i][1]], i))
    for rounds in range(max_rounds):
        v = chain_total(g, choice, rew)
        if v is None:
            raise OracleInconclusive("infinite total reward under a candidate strategy pair")
        switched = False
        for s in choice:
            tr = g.tl[s]
            opt = opt1 if g.players[s] == P1 else opt2
            bi, bv = choice[s], v[tr[choice[s]][1]]
            for i in idxs_of(s):
                t = tr[i][1]
                if (opt == "max" and v[t] > bv) or (opt == "min" and v[t] < bv):
                    bi, bv = i, v[t]
            if bi != choice[s]:
                choice[s] = bi
                switched = True
        if not switched:
            return {"v": v, "choice": dict(choice), "rounds": rounds}
    raise OracleInconclusive("total-reward policy iteration did not settle")


def expected_steps_max(g, allowed=None):
    """T_max(s): max over all strategy pairs of the expected number of steps spent in
    non-absorbing states (finite iff the game is stopping)."""
    ones = [F(0) if g.absorbing(s) else F(1) for s in range(g.n)]
    return opt_total(g, rew=ones, opt1="max", opt2="max", allowed=allowed)["v"]


def chain_steps(g, choice, U):
    """Expected number of steps spent in U for the chain; None if not transient on U."""
    rows = _chain_rows(g, choice)
    U = set(U)
    # every U state must be able to leave U in the chain graph
    pred = {s: [] for s in U}
    leave = set()
    for s in U:
        for t in rows[s]:
            if t in U:
                pred[t].append(s)
            else:
                leave.add(s)
        if not rows[s]:
            leave.add(s)
    seen = set(leave)
    stack = list(leave)
    while stack:
        v = stack.pop()
        for u in pred[v]:
            if u not in seen:
                seen.add(u)
                stack.append(u)
    if seen != U:
        return None
    const = {s: F(1) for s in U}
    fixed = {s: F(0) for s in range(g.n)}
    sol = _solve_on(U, rows, const, fixed)
    if sol is None:
        return None
    out = [F(0)] * g.n
    for s, x in sol.items():
        out[s] = x
    return out


# ----------------------------------------------------------------------------- brute force (self-test only)

def brute_force_reach(g, limit=20000):
    """max over deterministic sigma of min over deterministic tau of the chain value, per state...
    computed for the initial state 0 and, by the same enumeration, for every state."""
    import itertools
    p1 = [s for s in range(g.n) if g.players[s] == P1 and g.tl[s]]
    p2 = [s for s in range(g.n) if g.players[s] == P2 and g.tl[s]]
    size = 1
    for s in p1 + p2:
        size *= len(g.tl[s])
    if size > limit:
        return None
    best = [F(-1)] * g.n
    for sig in itertools.product(*[range(len(g.tl[s])) for s in p1]):
        worst = [F(2)] * g.n
        for tau in itertools.product(*[range(len(g.tl[s])) for s in p2]):
            choice = dict(zip(p1, sig))
            choice.update(zip(p2, tau))
            v = chain_reach(g, choice)
            worst = [min(a, b) for a, b in zip(worst, v)]
        best = [max(a, b) for a, b in zip(best, worst)]
    return best


def brute_force_total(g, limit=20000):
    import itertools
    p1 = [s for s in range(g.n) if g.players[s] == P1 and g.tl[s]]
    p2 = [s for s in range(g.n) if g.players[s] == P2 and g.tl[s]]
    size = 1
    for s in p1 + p2:
        size *= len(g.tl[s])
    if size > limit:
        return None
    best = [F(-1)] * g.n
    for sig in itertools.product(*[range(len(g.tl[s])) for s in p1]):
        worst = None
        for tau in itertools.product(*[range(len(g.tl[s])) for s in p2]):
            choice = dict(zip(p1, sig))
            choice.update(zip(p2, tau))
            v = chain_total(g, choice, g.rewards)
            if v is None:
                return None
            worst = v if worst is None else [min(a, b) for a, b in zip(worst, v)]
        best = [max(a, b) for a, b in zip(best, worst)]
    return best
