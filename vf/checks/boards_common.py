"""Board-sized workloads (G-BOARD via the real generator, G-REPO committed inputs) shared by C01/C02/C05.

Boards are produced the way a user gets them: roberta_generator.gen_rnd_board + write_robots into a scratch
file, read back with conditionalrewards.read_dict_from_file.  Every solve runs under the step budget; an
overrun whose sweep diagnosis shows the D8 mechanism (auxiliary quantity growing by a constant while the main
quantities are quiet) is "no result available" here (C11 owns that finding)."""
import glob
import os
import tempfile
from .. import bootstrap, monitors, games, analysis
from ..oracle import OracleInconclusive, P1, P2, PR

# (length, width, seed, p_robot, p_light, p_tile, p_loose, force_down)
BOARDS_Q = [
    (1, 1, 0, .1, .1, .1, .3, False), (2, 2, 1, .1, .1, .1, .3, False), (3, 3, 2, .1, .1, .1, .3, True),
    (3, 3, 12, .1, .1, .1, .3, True), (2, 5, 3, .5, .29, .01, .3, False), (5, 2, 4, .01, .5, .9, .5, True),
    (4, 4, 5, .29, .1, .5, .3, False), (5, 5, 47, .1, .1, .1, .3, False), (5, 5, 40, .1, .1, .1, .3, True),
    (1, 6, 6, .9, .9, .1, .3, False), (6, 1, 7, .1, .1, .29, .9, False), (5, 10, 47, .1, .1, .1, .3, True),
]
BOARDS_T = BOARDS_Q + [
    (10, 5, 8, .1, .1, .1, .3, False), (10, 10, 9, .29, .01, .5, .3, True), (10, 20, 47, .1, .1, .1, .3, False),
    (10, 20, 47, .1, .1, .1, .3, True), (10, 40, 47, .1, .1, .1, .3, False), (40, 10, 3, .1, .1, .1, .3, True),
    (60, 3, 4, .5, .5, .5, .5, False), (3, 60, 5, .01, .01, .01, .1, True), (8, 8, 11, .9, .1, .1, .3, False),
    (7, 7, 13, .1, .9, .9, .9, True), (12, 12, 14, .1, .1, .1, .01, False), (20, 5, 15, .29, .29, .29, .3, True),
] + [(rows, cols, 100 + k, .1, .1, .1, .3, k % 2 == 0) for k, (rows, cols) in enumerate(
    [(2, 3), (3, 2), (3, 4), (4, 3), (4, 5), (5, 4), (6, 6), (2, 8), (8, 2), (3, 7), (7, 3), (5, 6), (6, 5), (9, 4), (4, 9), (6, 8)])]

REPO_SKIP_STATES = 2500


def plan_boards(tier):
    boards = BOARDS_Q if tier == "quick" else BOARDS_T
    b = [{"cls": "B-BOARD", "start": i, "count": 1, "timeout": 1700} for i in range(len(boards))]
    files = repo_inputs()
    b += [{"cls": "B-REPO", "start": i, "count": 1, "timeout": 1700} for i in range(len(files))]
    return b


def repo_inputs():
    return sorted(glob.glob(os.path.join(bootstrap.REPO, "inputs", "*.py")))


def make_board(spec):
    """-> dict name -> game (solver-style)"""
    length, width, seed, p_robot, p_light, p_tile, p_loose, fd = spec
    rg = monitors.mods()["roberta_generator"]
    cr = monitors.mods()["conditionalrewards"]
    moves, rewards, loose = rg.gen_rnd_board(seed, length, width, p_loose, 6, fd)
    with tempfile.TemporaryDirectory(prefix="verif-board-") as d:
        path = os.path.join(d, "board.py")
        rg.write_robots(file_name=path, length=length, width=width, moves=moves, rewards=rewards, loose_tiles=loose,
                         prob_tile_break=p_tile, prob_robot_break=p_robot, prob_light_break=p_light)
        return cr.read_dict_from_file(path)


def board_limit(n, m, sweeps=4000):
    return int(sweeps * 3 * (n + m) + 1e5)


def solve_staged(game, prune, n, m, stages=(250, 4000)):
    """Solve under a small logical budget first; an overrun that the sweep diagnosis proves to be the D8
    divergence (main quantities quiet, auxiliary one growing by a constant) is final, anything else is
    re-run under the large budget."""
    out = None
    for sweeps in stages:
        out = monitors.observed_solve(fresh(game), prune, board_limit(n, m, sweeps))
        if out.status != "budget" or is_d8(out):
            return out
    return out


def fresh(game):
    return {"rewards": list(game["rewards"]), "players": list(game["players"]),
            "transition_list": [list(t) for t in game["transition_list"]], "final_states": list(game["final_states"])}


def is_d8(out):
    d = out.diag or {}
    return out.status == "budget" and d.get("phase") == "total_rewards" and d.get("main_quiet") and \
        d.get("reach_min_rew_quiet") and d.get("aux_constant_growth")


def decide_board_game(pid, name, game, idx, tier):
    from .. import bigoracle
    n = len(game["players"])
    m = sum(len(t) for t in game["transition_list"])
    res = {"idx": idx, "verdict": "held", "stats": {"max_board_states": n, "board_games": 1}, "tags": [],
           "key": "%s/%s/%d" % (name, n, m), "nontrivial": True}
    if tier == "quick" and n > 1500:
        res.update(verdict="skipped", what="board above 1500 states skipped in the quick tier")
        return res
    outs = {}
    for prune in (False, True):
        outs[prune] = solve_staged(game, prune, n, m)
        res["stats"]["max_steps"] = max(res["stats"].get("max_steps", 0), outs[prune].steps)
        if outs[prune].status == "ok":
            res["stats"]["max_sweeps"] = max(res["stats"].get("max_sweeps", 0), outs[prune].result[4], outs[prune].result[5])
    noresult = [p for p in outs if outs[p].status not in ("ok", "nosol")]
    for p in noresult:
        if is_d8(outs[p]):
            res["stats"]["no_result_aux_divergence"] = res["stats"].get("no_result_aux_divergence", 0) + 1
        elif outs[p].status == "budget":
            res["stats"]["no_result_budget_other"] = res["stats"].get("no_result_budget_other", 0) + 1
        else:
            res["stats"]["no_result_error"] = res["stats"].get("no_result_error", 0) + 1
    usable = [p for p in outs if outs[p].status == "ok"]
    if not usable:
        res.update(verdict="inconclusive" if any(outs[p].status not in ("nosol",) for p in outs) and outs[False].status != "nosol" else "skipped",
                   what="no result available: %s / %s" % (outs[False].status, outs[True].status))
        if outs[False].status == "budget" and is_d8(outs[False]):
            res["verdict"] = "skipped"
        return res
    problems = []
    if pid == "C01":
        bg = bigoracle.BigGame(game)
        try:
            r = bigoracle.reach_values(bg)
        except OracleInconclusive as e:
            res.update(verdict="inconclusive", what="float oracle: " + str(e))
            return res
        back = analysis.oracle.back_reach(bg.graph)
        for p in usable:
            x = outs[p].result[3]
            T = bigoracle.reach_T(bg, r, x)
            if T is None:
                res["stats"]["tol_inconclusive_solves"] = res["stats"].get("tol_inconclusive_solves", 0) + 1
            for s in range(n):
                if s in bg.finals:
                    if x[s] != 1:
                        problems.append({"state": s, "problem": "final state does not report exactly 1", "got": x[s]})
                elif s not in back:
                    if x[s] != 0:
                        problems.append({"state": s, "problem": "state with no path to a final does not report exactly 0", "got": x[s]})
                else:
                    vs = float(r["v"][s])
                    e = 1e-9 + 1e-10
                    if x[s] > vs + e:
                        problems.append({"state": s, "problem": "reported probability exceeds the true value", "got": x[s], "true": vs})
                    elif T is not None and vs > 0:
                        band = analysis.DELTA * max(T[s], 1.0)
                        res["stats"]["max_err_over_band"] = max(res["stats"].get("max_err_over_band", 0.0), (vs - x[s]) / band)
                        res["stats"]["max_T"] = max(res["stats"].get("max_T", 0.0), float(T[s]))
                        if vs - x[s] > band + e:
                            problems.append({"state": s, "problem": "reported probability below the true value by more than the convergence tolerance",
                                             "got": x[s], "true": vs, "band": band})
            res["stats"]["states_compared"] = res["stats"].get("states_compared", 0) + n
        if len(usable) == 2 and outs[True].result[3] != outs[False].result[3]:
            problems.append({"problem": "probabilities differ between pruning on and off"})
    elif pid == "C02":
        gd = games.from_solver_input(game)
        for p in usable:
            pr, st, mode, cond = analysis.check_rewards(gd, outs[p].result, p, value_form=False)
            problems += [dict(x, mode="prune" if p else "no-prune") for x in pr]
            res["stats"]["states_compared"] = res["stats"].get("states_compared", 0) + st["states"]
            res["stats"]["max_residual"] = max(res["stats"].get("max_residual", 0.0), st["max_residual"])
            res["stats"]["residual_form_solves"] = res["stats"].get("residual_form_solves", 0) + 1
    elif pid == "C05":
        gd = games.from_solver_input(game)
        for p in usable:
            pr, k = analysis.check_final_inclusion(gd, outs[p].result)
            problems += pr
            res["stats"]["inclusion_checks"] = res["stats"].get("inclusion_checks", 0) + k
    if problems:
        res.update(verdict="violated", what="board %s: %s" % (name, problems[0]["problem"]), witness=problems[:4])
    return res


def run_boards(batch, pid, emit_start):
    cls, tier = batch["cls"], batch["tier"]
    for idx in range(batch["start"], batch["start"] + batch["count"]):
        emit_start(idx)
        if cls == "B-BOARD":
            spec = (BOARDS_Q if tier == "quick" else BOARDS_T)[idx]
            gamesd = make_board(spec)
            label = "board%s" % (list(spec),)
            case = {"board": list(spec)}
        else:
            path = repo_inputs()[idx]
            cr = monitors.mods()["conditionalrewards"]
            gamesd = cr.read_dict_from_file(path)
            label = os.path.basename(path)
            case = {"repo_input": os.path.basename(path)}
        for name, game in gamesd.items():
            game = {k: v for k, v in game.items() if k in ("rewards", "players", "transition_list", "final_states")}
            if max(game["rewards"]) > 1e6:
                yield {"idx": idx, "verdict": "skipped", "what": "rewards above 1e6 (float noise would exceed the band)", "tags": [cls]}
                continue
            r = decide_board_game(pid, label + ":" + name, game, idx, tier)
            r["tags"] = r.get("tags", []) + [cls]
            if r["verdict"] == "violated":
                r["case"] = dict(case, game=name)
            yield r


def replay_board(case, pid):
    cr = monitors.mods()["conditionalrewards"]
    if "board" in case:
        gamesd = make_board(tuple(case["board"]))
    else:
        gamesd = cr.read_dict_from_file(os.path.join(bootstrap.REPO, "inputs", case["repo_input"]))
    game = gamesd[case["game"]]
    game = {k: v for k, v in game.items() if k in ("rewards", "players", "transition_list", "final_states")}
    r = decide_board_game(pid, "replay:" + case["game"], game, 0, "thorough")
    r["case"] = case
    return r
