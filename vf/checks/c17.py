"""C17 - generated file names identify the parameters that produced them (DESIGN 4/C17)."""
import os
import re
import sys
from .. import harness, monitors, games
from . import gen_common as gc

PID = "C17"
LEVEL = "exploration"
DEV = True
EXHAUSTIVE = True
RULE = ("EXHAUSTIVE on the grid that matters: for each of the four probability parameters every k/100, k=1..99 (others at defaults, 1x1 board), "
        "in both spellings float(k)/100 and float('0.kk') (792 generator runs), all (k1,k2) pairs on prob_to_str; plus random accepted parameter "
        "sets (seeds, sizes, max reward, flag) and the manual entry point.  The path the real main() creates (seen by the file-system recorder and "
        "confirmed by listing the directory) is parsed back with the regular grammar of the name and compared with the parameters passed: "
        "parse-back equality for every observation implies that two different whole-percent parameter sets never share a file.  "
        "Non-trivial: every run (a distinct parameter set); distinct = parameter tuple.")
FLOOR = 500
REQUIRED = ["c17.names"]
ASSUMPTIONS = ["probabilities that are not whole percentages may be rounded either way; only k/100 inputs are claimed"]
TIMEOUT = 900
NAME_RE = re.compile(r"^inputs/robot_(\d+)_w(\d+)_l(\d+)_r(\d+)_rb(\d+)_lb(\d+)_tb(\d+)_lt(\d+)(_force_down)?\.py$")
MANUAL_RE = re.compile(r"^inputs/manual_robot_w(\d+)_l(\d+)_r(\d+(?:\.\d+)?)_rb(\d+)_lb(\d+)_tb(\d+)_(force_down)?\.py$")
PARAMS = ["p_robot", "p_light", "p_tile", "p_loose"]


def content_probabilities(gamesd):
    """Which break probabilities is the CONTENT of the file built with?  Game A only contains the tile-break
    probability, game B adds the robot's, game C adds the light's (each together with its complement and 1)."""
    def probs(g):
        return {p for s, tr in enumerate(g["transition_list"]) if g["players"][s] == "Probabilistic" for p, _ in tr}
    a, b, c = probs(gamesd["game_a"]), probs(gamesd["game_b"]), probs(gamesd["game_c"])
    return a - {1}, b - a - {1}, c - b - {1}


def run_generator(p, want_content=False):
    rg = monitors.mods()["roberta_generator"]
    cr = monitors.mods()["conditionalrewards"]
    argv = gc.gen_argv(p["seed"], p["width"], p["length"], p["p_robot"], p["p_light"], p["p_tile"], p["p_loose"], p["max_reward"], p["force_down"])
    content = None
    with gc.Scratch() as sc_:
        exc, log, writes = gc.call_main(rg, argv)
        files = sc_.listing()
        rel = [os.path.relpath(w, sc_.dir) if os.path.isabs(w) else w for w in writes]
        if want_content and exc is None and len(files) == 1:
            try:
                gamesd = cr.read_dict_from_file(files[0])
                content = content_probabilities(gamesd)
                # the board itself: regenerated from the stated seed / sizes / max reward / loose probability / flag
                mv, rw, lo = rg.gen_rnd_board(p["seed"], p["length"], p["width"], p["p_loose"], p["max_reward"], p["force_down"])
                flat = [x for row in rw for x in row]
                content = content + (gamesd["game_a"]["rewards"][:len(flat)] == flat,)
                # which mode was the board produced in?  The light's states are the first length*width states of game A; a tile is
                # down-only iff its light state offers nothing but Green.  force-down boards have one in every row, others have none
                W_, L_ = p["width"], p["length"]
                only_green = [[{a for a, _ in gamesd["game_a"]["transition_list"][i * W_ + j]} == {"Green"} for j in range(W_)] for i in range(L_)]
                content = content + ("every_row" if all(any(r) for r in only_green) else ("none" if not any(any(r) for r in only_green) else "some"),)
            except Exception as e:
                content = "unreadable: %r" % e
    if want_content:
        return exc, rel, files, content
    return exc, rel, files


def check_content(p, content):
    """The name states rb/lb/tb = the probabilities passed; the games in the file must be built with those."""
    if content is None:
        return []
    if isinstance(content, str):
        return [{"problem": "generated file cannot be read back: " + content}]
    tile, robot, light, board_ok = content[:4]
    pr = []
    if len(content) > 4:
        want = "every_row" if p["force_down"] else "none"
        if content[4] != want:
            pr.append({"problem": "the file name %s the force-down flag, but the board in the file has down-only tiles in %s"
                                  % ("carries" if p["force_down"] else "does not carry", {"every_row": "every row", "none": "no row", "some": "some rows only"}[content[4]]),
                       "param": "force_down"})
    if not board_ok:
        pr.append({"problem": "the tile rewards in the file are not those of the board the stated seed, sizes, maximum reward, loose-tile probability and flag generate"})
    for nm, found, val in (("tile-break", tile, p["p_tile"]), ("robot", robot, p["p_robot"]), ("light", light, p["p_light"])):
        allowed = {val, 1 - val}
        if nm == "tile-break" and not found:
            continue            # no loose tile on this board
        if not found <= allowed or val not in found:
            pr.append({"problem": "the file name states the %s probability %r but the games in the file are built with %s" % (nm, val, sorted(found)),
                       "param": nm})
    return pr


def check_name(p, exc, writes, files):
    problems = []
    if exc is not None:
        return [{"problem": "generator raised %s: %s" % (type(exc).__name__, str(exc)[:100])}]
    if len(files) != 1 or sorted(set(writes)) != files:
        return [{"problem": "created files and recorded writes disagree or are not exactly one", "files": files, "writes": writes}]
    m = NAME_RE.match(files[0].replace(os.sep, "/"))
    if not m:
        return [{"problem": "file name does not follow robot_<seed>_w<W>_l<L>_r<R>_rb<a>_lb<b>_tb<c>_lt<d>[_force_down].py", "name": files[0]}]
    got = dict(zip(["seed", "width", "length", "max_reward", "p_robot", "p_light", "p_tile", "p_loose"], map(int, m.groups()[:8])))
    got["force_down"] = bool(m.group(9))
    for k in ("seed", "width", "length", "max_reward", "force_down"):
        if got[k] != p[k]:
            problems.append({"problem": "name states %s=%r but the generator was run with %r" % (k, got[k], p[k]), "name": files[0]})
    for k in PARAMS:
        pct = p[k] * 100
        whole = p.get("_k", {}).get(k)
        if whole is not None and got[k] != whole:
            problems.append({"problem": "probability %d/100 (%r) appears as %d in the name" % (whole, p[k], got[k]), "name": files[0], "param": k})
    return problems


def decide_k(idx):
    """idx -> (param, k, spelling)"""
    param = PARAMS[idx // 198]
    k = (idx % 198) // 2 + 1
    spelling = idx % 2
    val = float(k) / 100 if spelling == 0 else float("0.%02d" % k)
    p = dict(seed=3, width=1, length=1, max_reward=6, p_robot=.1, p_light=.1, p_tile=.1, p_loose=.3, force_down=False)
    p[param] = val
    p["_k"] = {param: k, **{q: int(round(p[q] * 100)) for q in PARAMS if q != param}}
    exc, writes, files = run_generator(p)
    monitors.MON.count("c17.names")
    problems = check_name(p, exc, writes, files)
    res = {"idx": idx, "verdict": "held", "tags": ["KGRID", "k:" + param], "key": "%s/%d/%d" % (param, k, spelling), "nontrivial": True,
           "stats": {"names_parsed": 1, "k_runs": 1}}
    if problems:
        res.update(verdict="violated", what=problems[0]["problem"], witness=problems[:3], case={"k": [param, k, spelling]})
    if idx % 160 == 0:
        res["sample"] = {"param": param, "k": k, "value": val, "file": files[0] if files else None}
    return res


def decide_pairs(idx):
    """prob_to_str on all (k1,k2): the pair of tokens must be (k1,k2); cross-checked against real files for a sample."""
    rg = monitors.mods()["roberta_generator"]
    k1 = idx + 1
    bad = []
    for k2 in range(1, 100):
        t = (rg.prob_to_str(k1 / 100), rg.prob_to_str(k2 / 100))
        if t != (str(k1), str(k2)):
            bad.append([k1, k2, t])
    monitors.MON.count("c17.names", 99)
    res = {"idx": idx, "verdict": "held", "tags": ["KPAIRS"], "key": "pairs%d" % k1, "nontrivial": True, "stats": {"k_pairs": 99}}
    # cross-check one pair against a file actually created
    k2 = (k1 * 37) % 99 + 1
    p = dict(seed=1, width=1, length=1, max_reward=1, p_robot=k1 / 100, p_light=k2 / 100, p_tile=.5, p_loose=.5, force_down=False)
    p["_k"] = {"p_robot": k1, "p_light": k2, "p_tile": 50, "p_loose": 50}
    exc, writes, files = run_generator(p)
    problems = check_name(p, exc, writes, files)
    res["stats"]["pair_files_created"] = 1
    if bad or problems:
        res.update(verdict="violated", what=("prob_to_str pair %s" % bad[0]) if bad else problems[0]["problem"], witness=(bad[:3] + problems[:2]),
                   case={"pairs": k1})
    return res


def decide_random(idx, seed0):
    rng = games.case_rng(seed0, PID, "RND", idx)
    ks = {q: rng.randint(1, 99) for q in PARAMS}
    p = dict(seed=rng.choice([0, 1, 47, 2 ** 31, rng.randrange(2 ** 31), 2 ** 53 + 1, 9007199254740993, 10 ** 18 + 7, 1234567, 999132423]), width=rng.randint(1, 6), length=rng.randint(1, 6),
             max_reward=rng.choice([1, 6, 30, 100, 60, 700]), force_down=rng.random() < 0.5)
    for q in PARAMS:
        p[q] = ks[q] / 100
    p["_k"] = ks
    exc, writes, files, content = run_generator(p, want_content=True)
    monitors.MON.count("c17.names")
    problems = check_name(p, exc, writes, files)
    if len({ks["p_robot"], ks["p_light"], ks["p_tile"], 100 - ks["p_robot"], 100 - ks["p_light"], 100 - ks["p_tile"]}) == 6:
        problems += check_content(p, content)
    elif content is not None and not isinstance(content, str):
        problems += [q for q in check_content(p, content) if "tile rewards" in q["problem"] or q.get("param") == "force_down"]
    res = {"idx": idx, "verdict": "held", "tags": ["RND"], "key": repr(sorted((k, v) for k, v in p.items() if k != "_k")), "nontrivial": True,
           "stats": {"names_parsed": 1, "content_checked": int(content is not None)}}
    if problems:
        res.update(verdict="violated", what=problems[0]["problem"], witness=problems[:3], case={"params": {k: v for k, v in p.items()}})
    if idx % 100 == 0:
        res["sample"] = {"params": {k: v for k, v in p.items() if k != "_k"}, "file": files[0] if files else None}
    return res


def expected_name(p):
    return "inputs/robot_%d_w%d_l%d_r%d_rb%d_lb%d_tb%d_lt%d%s.py" % (p["seed"], p["width"], p["length"], p["max_reward"], p["_k"]["p_robot"], p["_k"]["p_light"],
                                                                   p["_k"]["p_tile"], p["_k"]["p_loose"], "_force_down" if p["force_down"] else "")


def decide_twice(idx, seed0):
    """The generator run several times in ONE directory: the same parameters twice, then a parameter set whose name extends the first
    one by a digit (lt3 -> lt31, seed 7 -> seed 71): afterwards the directory holds exactly the two files these parameter sets name,
    and each holds the board of the set its name states."""
    rg = monitors.mods()["roberta_generator"]
    cr = monitors.mods()["conditionalrewards"]
    rng = games.case_rng(seed0, PID, "TWICE", idx)
    ks = {q: rng.randint(1, 99) for q in PARAMS}
    ks["p_loose"] = rng.randint(1, 9)
    p = dict(seed=rng.randrange(1000), width=rng.randint(2, 6), length=rng.randint(2, 6), max_reward=rng.choice([1, 6, 30]), force_down=rng.random() < 0.5)
    for q in PARAMS:
        p[q] = ks[q] / 100
    p["_k"] = dict(ks)
    p2 = dict(p)
    p2["_k"] = dict(ks)
    if idx % 2:
        p2["_k"]["p_loose"] = ks["p_loose"] * 10 + rng.randint(0, 9)
        p2["p_loose"] = p2["_k"]["p_loose"] / 100
    else:
        p2["seed"] = p["seed"] * 10 + rng.randint(0, 9)
    problems = []
    with gc.Scratch() as sc_:
        for q in (p, p, p2):
            argv = gc.gen_argv(q["seed"], q["width"], q["length"], q["p_robot"], q["p_light"], q["p_tile"], q["p_loose"], q["max_reward"], q["force_down"])
            exc, _, _ = gc.call_main(rg, argv)
            if exc is not None:
                problems.append({"problem": "generator raised %s" % type(exc).__name__})
        files = [f.replace(os.sep, "/") for f in sc_.listing()]
        want = sorted({expected_name(p), expected_name(p2)})
        if sorted(files) != want:
            problems.append({"problem": "after three runs the directory does not hold exactly the files the two parameter sets name", "files": files, "expected": want})
        else:
            for q in (p, p2):
                try:
                    g = cr.read_dict_from_file(expected_name(q))
                    mv, rw, lo = rg.gen_rnd_board(q["seed"], q["length"], q["width"], q["p_loose"], q["max_reward"], q["force_down"])
                    flat = [x for row in rw for x in row]
                    if g["game_a"]["rewards"][:len(flat)] != flat:
                        problems.append({"problem": "the file %s does not hold the board of the parameters its name states" % expected_name(q)})
                except Exception as e:
                    problems.append({"problem": "file cannot be read back: %r" % e})
    monitors.MON.count("c17.names", 2)
    res = {"idx": idx, "verdict": "held", "tags": ["TWICE"], "key": "twice:%d:%s" % (idx, sorted(ks.items())), "nontrivial": True, "stats": {"repeated_run_dirs": 1}}
    if problems:
        res.update(verdict="violated", what=problems[0]["problem"], witness=problems[:3], case={"twice": idx, "seed": seed0})
    return res


def decide_manual(idx, seed0):
    mb = monitors.mods()["manual"]
    rng = games.case_rng(seed0, PID, "MANUAL", idx)
    W, L = rng.randint(1, 4), rng.randint(1, 4)
    fd = rng.random() < 0.5
    moves = [[rng.choice([0, 1, 2]) for _ in range(W)] for _ in range(L)]
    if fd:
        moves[rng.randrange(L)][rng.randrange(W)] = 3
    mr = rng.randint(1, 9)
    rewards = [[rng.randint(0, mr) for _ in range(W)] for _ in range(L)]
    rewards[rng.randrange(L)][rng.randrange(W)] = mr
    if idx % 5 == 1:
        mr = 0                                    # a board without any reward
        rewards = [[0] * W for _ in range(L)]
    elif idx % 5 in (2, 4):
        # hand-made boards may carry non-integer rewards: halves and quarters, whole floats, and decimals with a zero right after
        # the point or inside (2.05, 10.05, 40.04, 1.005): the r-field must state exactly that number
        mr = rng.choice([2.5, 0.5, 7.25, 2.05, 10.05, 3.01, 1.0, 5.0, 0.05, 100.0, 20.0, 40.04, 1.005, 12.0, 0.001, 30.03, 9.09])
        rewards = [[rng.choice([0, 0.25 if mr > 0.25 else 0, mr]) for _ in range(W)] for _ in range(L)]
        rewards[rng.randrange(L)][rng.randrange(W)] = mr
    loose = [[rng.choice([0, 1]) for _ in range(W)] for _ in range(L)]
    ks = [rng.randint(1, 99) for _ in range(3)]
    given = [k / 100 for k in ks]
    if idx % 6 == 3:
        # a probability of exactly one, written the way a hand-made call may write it: 1, 1.0 or True (the entry point has no range check)
        j = rng.randrange(3)
        ks[j] = 100
        given[j] = rng.choice([1, True, 1.0])
    with gc.Scratch() as sc_:
        with monitors.fs_record() as fs:
            try:
                mb.create_sg_from_board(moves=moves, rewards=rewards, loose_tiles=loose, prob_robot_break=given[0],
                                           prob_light_break=given[1], prob_tile_break=given[2])
                exc = None
            except Exception as e:
                exc = e
        files = sc_.listing()
    monitors.MON.count("c17.names")
    problems = []
    if exc is not None or len(files) != 1:
        problems.append({"problem": "manual entry point raised or did not create exactly one file", "exc": repr(exc), "files": files})
    else:
        m = MANUAL_RE.match(files[0].replace(os.sep, "/"))
        if not m:
            problems.append({"problem": "manual file name does not follow its grammar", "name": files[0]})
        else:
            g6 = m.groups()[:6]
            got = [int(g6[0]), int(g6[1]), float(g6[2]) if "." in g6[2] else int(g6[2]), int(g6[3]), int(g6[4]), int(g6[5])] + [bool(m.group(7))]
            want = [W, L, mr] + ks + [fd]
            if got != want:
                problems.append({"problem": "manual file name states %s, parameters were %s" % (got, want), "name": files[0]})
    res = {"idx": idx, "verdict": "held", "tags": ["MANUAL"], "key": repr((moves, rewards, loose, ks)), "nontrivial": True, "stats": {"manual_names": 1}}
    if problems:
        res.update(verdict="violated", what=problems[0]["problem"], witness=problems, case={"manual": [moves, rewards, loose, ks]})
    return res


def plan(tier, seed):
    q = tier == "quick"
    b = harness.split("KGRID", 4 * 99 * 2, 66)
    b += harness.split("KPAIRS", 99, 25)
    b += harness.split("RND", 200 if q else 4000, 50 if q else 250)
    b += harness.split("MANUAL", 60 if q else 1000, 30 if q else 100)
    b += harness.split("TWICE", 40 if q else 600, 20 if q else 100)
    return b


def run_batch(batch):
    monitors.install(step_meter=False)
    for idx in range(batch["start"], batch["start"] + batch["count"]):
        EMIT_START(idx)
        c = batch["cls"]
        if c == "KGRID":
            yield decide_k(idx)
        elif c == "KPAIRS":
            yield decide_pairs(idx)
        elif c == "RND":
            yield decide_random(idx, batch["seed"])
        elif c == "TWICE":
            yield decide_twice(idx, batch["seed"])
        else:
            yield decide_manual(idx, batch["seed"])


def finish(agg):
    return {"k_grid_runs": agg.stats.get("k_runs", 0), "k_grid_expected": 792}


def replay(case):
    monitors.install(step_meter=False)
    if "twice" in case:
        return decide_twice(case["twice"], case.get("seed", 0))
    if "k" in case:
        param, k, sp = case["k"]
        return decide_k(PARAMS.index(param) * 198 + (k - 1) * 2 + sp)
    if "pairs" in case:
        return decide_pairs(case["pairs"] - 1)
    if "params" in case:
        p = case["params"]
        exc, writes, files, content = run_generator(p, want_content=True)
        pr = check_name(p, exc, writes, files) + check_content(p, content)
        return {"verdict": "violated" if pr else "held", "what": pr[0]["problem"] if pr else None, "case": case}
    return {"verdict": "inconclusive", "what": "manual case: rerun the check"}


if __name__ == "__main__":
    sys.exit(harness.main(sys.modules[__name__]))
