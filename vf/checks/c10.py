"""C10 - solving leaves the game description intact and is repeatable (DESIGN 4/C10).

Deciding oracles: monitor M-ALIAS (deep snapshot of the caller's four lists around every real solve(), on return and on
exception) and a history checker (equal 8-tuples for equal pruning flag along a sequence of solves on one description)."""
import copy
import itertools
import sys
from .. import harness, monitors, games, analysis
from ..oracle import P1, P2, PR
from . import solver_common as sc

PID = "C10"
LEVEL = "exploration"
RULE = ("histories of solves on ONE description: steps are (pruned|unpruned) x (same StochasticGame object | fresh object on the same "
        "dict | fresh object on a deep copy = reference); all 36 length-2 and all 216 length-3 histories on a subset of games (exhaustive "
        "for that sub-space), random length-4..8 histories on the rest; games from G-DEAD/G-ACY/G-CYC/G-LEX/G-TIE and the paper's figure "
        "5.5 game.  Non-trivial: pruning actually removes a transition in that game (only those can expose aliasing); "
        "distinct = (game hash, history).")
RULE += (' Rewards as Fraction/Decimal, final states as set/tuple, XPROC (three interpreter processes with different hash seeds). THREADS class: the real code called from 3-4 threads of one interpreter (1 us switch interval, yield injection at every ~1000-3000th executed line), each concurrent outcome compared with the sequential outcome of the same process.')
FLOOR = 300
REQUIRED = ["alias.solves"]
ASSUMPTIONS = ["results compared with == on the full 8-tuple (the code is deterministic)"]
TIMEOUT = 1800
STEPS = [(p, h) for p in (True, False) for h in ("same", "fresh", "copy")]
TABLE = [("G-DEAD", 350), ("G-ACY", 200), ("G-CYC", 200), ("G-LEX", 150), ("G-TIE", 100), ("FIG55", 20), ("G-ACYNF", 150), ("G-CYCNF", 100), ("G-TINYB", 100), ("G-DUPL", 150), ("G-MIX", 250), ("G-FINREP", 100)]


def fig55():
    from fractions import Fraction as F
    from ..oracle import P1, PR
    return {"rewards": [F(0), F(1), F(0), F(1), F(0), F(0), F(0)],
            "players": [P1, PR, PR, P1, PR, PR, PR],
            "transition_list": [[("beta", 1), ("alfa", 2)], [(F(3, 4), 3), (F(1, 4), 4)], [(F(1, 2), 5), (F(1, 2), 6)],
                                [("delta", 4), ("gamma", 5)], [(F(1), 4)], [(F(1), 5)], [(F(1), 6)]],
            "final_states": [5]}


def exact_rewards(gd, desc, kind):
    """The caller keeps exact numbers in the rewards list (the solver accepts any real number type)."""
    from fractions import Fraction as F
    from decimal import Decimal
    if kind == "fraction":
        desc["rewards"] = [F(r) for r in gd["rewards"]]
    elif kind == "decimal":
        # Decimal mixes with ints only: usable where every probability is the int 1 (deterministic games)
        if all(isinstance(p, int) for s, tr in enumerate(desc["transition_list"]) if gd["players"][s] == PR for p, _ in tr):
            desc["rewards"] = [Decimal(r.numerator) / Decimal(r.denominator) for r in gd["rewards"]]
    return desc


def run_history(gd, history, limit, rewards_kind=None, finals_kind=None):
    """Returns (problems, solves, removed_any)."""
    tad = monitors.mods()["tad"]
    MON = monitors.MON
    MON.drain("alias")
    desc = exact_rewards(gd, games.to_solver(gd), rewards_kind)
    if finals_kind == "set":
        desc["final_states"] = set(desc["final_states"])           # a mutable set is accepted wherever a list of final states is
    elif finals_kind == "tuple":
        desc["final_states"] = tuple(desc["final_states"])
    pristine = copy.deepcopy(desc)
    sg = None
    first = {}
    problems = []
    removed_any = False
    for k, (prune, how) in enumerate(history):
        if how == "same":
            if sg is None:
                sg = tad.StochasticGame(desc["rewards"], desc["players"], desc["transition_list"], desc["final_states"], prune_states=prune)
            out = monitors.observed_solve(desc, prune, limit, sg=sg)
        elif how == "fresh":
            out = monitors.observed_solve(desc, prune, limit)
        else:
            out = monitors.observed_solve(copy.deepcopy(pristine), prune, limit)
        if out.prune_rec and out.prune_rec["stats"].get("removed", 0) > 0:
            removed_any = True
        if out.status == "budget":
            return None, k, removed_any
        obs = copy.deepcopy((out.status, out.result, out.msg))
        if out.result is not None and k % 2 == 0:
            # what a caller may do with the lists it got back; a later solve must not see it
            try:
                for i in (0, 1):
                    for lst in out.result[i]:
                        if isinstance(lst, list):
                            lst.append("MARK")
                for i in (2, 3, 6, 7):
                    out.result[i][:] = [-1] * len(out.result[i])
            except Exception:
                pass
        if prune not in first:
            first[prune] = (k, obs)
        elif obs != first[prune][1]:
            problems.append({"step": k, "how": how, "prune": prune, "problem": "solve #%d differs from solve #%d with the same pruning flag" % (k, first[prune][0]),
                             "first": repr(first[prune][1])[:300], "now": repr(obs)[:300]})
        if not monitors.same_typed(desc, pristine):          # equal AND of the same kinds (a Fraction replaced by an equal float is a change)
            problems.append({"step": k, "how": how, "prune": prune, "problem": "the caller's description changed after this solve"})
            desc = copy.deepcopy(pristine)          # keep looking for further, independent problems
            sg = None
    # the description itself changes (a sink becomes a second final state, written into the caller's own list): the object built
    # earlier and a fresh object on the same lists must then agree with each other
    if sg is not None and len(history) % 2 == 0 and isinstance(desc["final_states"], list):
        n = len(desc["players"])
        sinks = [s for s in range(n) if all(t == s for _, t in desc["transition_list"][s]) and s not in desc["final_states"] and desc["rewards"][s] == 0]
        if sinks:
            desc["final_states"].append(sinks[0])
            a = monitors.observed_solve(desc, False, limit, sg=sg)
            b = monitors.observed_solve(desc, False, limit)
            if a.status != "budget" and b.status != "budget" and (a.status, a.result, a.msg) != (b.status, b.result, b.msg):
                problems.append({"problem": "after a final state was added to the description, the existing game object and a fresh one disagree",
                                 "same_object": a.brief(), "fresh": b.brief()})
            desc["final_states"].pop()
    for ev in MON.drain("alias"):
        problems.append({"problem": "M-ALIAS: caller's %s changed during solve (prune=%s, raised=%s)" % (ev["changed"], ev["prune"], ev["raised"]),
                         "before": ev["before"], "after": ev["after"]})
    return problems, len(history), removed_any


def histories_for(idx, rng, tier):
    if idx % 5 == 0:
        hs = [list(h) for h in itertools.product(STEPS, repeat=2)]
        if idx % 10 == 0:
            hs += [list(h) for h in itertools.product(STEPS, repeat=3)]
        return hs, True
    k = 6 if tier == "quick" else 12
    return [[rng.choice(STEPS) for _ in range(rng.randint(4, 8))] for _ in range(k)], False


def decide(gd, idx, cls, tier, rng):
    an = analysis.Analysis(gd)
    try:
        proper = an.stopping and an.finals_absorbing
        limit = sc.limit_for(an) if proper else monitors.step_limit(an.n, games.n_transitions(gd), 5)
    except Exception:
        proper = False
        limit = monitors.step_limit(an.n, games.n_transitions(gd), 5)
    if not proper:
        # outside the stopping games a solve may legitimately never end: one probe decides whether this game is usable here
        if any(monitors.observed_solve(games.to_solver(gd), p, limit).status == "budget" for p in (True, False)):
            return sc.skipped(idx, "not a stopping game and a solve does not finish within the small budget")
    hs, exhaustive = histories_for(idx, rng, tier)
    try:
        slow = an.stopping and float(max(an.tmax)) > 60
    except Exception:
        slow = True
    if slow and len(hs) > 12:
        # slowly converging game: a dozen histories instead of all 36 / 252 (each solve costs thousands of sweeps)
        hs, exhaustive = rng.sample(hs, 12), False
    res = {"idx": idx, "verdict": "held", "stats": {"histories": 0, "solves": 0, "exhaustive_len2_len3_games": int(exhaustive and idx % 10 == 0)},
           "tags": [cls], "key": games.canon_key(gd), "nontrivial": False}
    problems = []
    kind = {1: "fraction", 3: "decimal"}.get(idx % 4) if cls != "FIG55" else None
    res["stats"]["games_with_exact_rewards"] = int(kind is not None)
    fkind = {2: "set", 4: "tuple"}.get(idx % 5) if cls != "FIG55" else None
    res["stats"]["games_with_finals_as_set_or_tuple"] = int(fkind is not None)
    if kind is not None and len(hs) > 10:
        hs = rng.sample(hs, 10)          # exact arithmetic is slow: ten histories per such game
    for h in hs:
        pr, k, removed = run_history(gd, h, limit, kind, fkind)
        if pr is None:
            res["stats"]["budget_histories"] = res["stats"].get("budget_histories", 0) + 1
            if res["stats"]["budget_histories"] >= 2 and not res["stats"]["histories"]:
                break                     # a game whose solves do not finish within the budget is not usable here: stop paying for it
            continue
        res["stats"]["histories"] += 1
        res["stats"]["solves"] += k
        if removed:
            res["nontrivial"] = True
        if pr:
            problems.append({"history": [[p, hw] for p, hw in h], "problems": pr[:3]})
    res["stats"]["games_where_pruning_removed"] = int(res["nontrivial"])
    if not res["stats"]["histories"]:
        return sc.skipped(idx, "all histories hit the budget")
    if problems:
        p = problems[0]
        res.update(verdict="violated", what="%s in history %s" % (p["problems"][0]["problem"], p["history"]), witness=problems[:3],
                   case={"game": games.enc_game(gd), "history": p["history"], "rewards_kind": kind, "finals_kind": fkind})
    if idx % 100 == 0:
        res["sample"] = {"game": games.to_solver(gd), "history": [[p, hw] for p, hw in hs[0]]}
    return res


def _strip(res):
    return {k: {f: v for f, v in e.items() if f != "total_time"} for k, e in res.items()}


def decide_batch(idx, seed):
    """Repeatability at the level of the batch driver: the same dict of descriptions run again (same object, deep copy, other order,
    one game alone) must give the same entries for every game."""
    import copy
    from . import c06
    cr = monitors.mods()["conditionalrewards"]
    rng = games.case_rng(seed, PID, "BATCH", idx)
    pool = {}
    names = rng.sample(["g1", "g2", "alpha", "b_2", "zz"], rng.randint(2, 3))
    for nm in names:
        gd = None
        while gd is None:
            gd = c06.gen_cut(rng) if rng.random() < 0.35 else games.gen_class(rng, rng.choice(["G-ACY", "G-CYC", "G-DEAD"]))
            if gd is not None:
                an = analysis.Analysis(gd)
                if not (an.stopping and an.finals_absorbing and max(an.tmax) < 300):
                    gd = None
        pool[nm] = games.to_solver(gd)
        budget_total = locals().get("budget_total", 0) + 2 * sc.limit_for(an)
    res = {"idx": idx, "verdict": "held", "stats": {"batch_pools": 1, "batch_runs": 0}, "tags": ["BATCH"], "key": "batch%d" % idx, "nontrivial": True}

    def run(d):
        res["stats"]["batch_runs"] += 1
        with monitors.budget(budget_total):
            try:
                return _strip(cr.run_games(d))
            finally:
                monitors.MON.metering = False

    problems = []
    try:
        ref = {nm: run({nm: copy.deepcopy(g)}) for nm, g in pool.items()}          # every game alone, fresh copies
        d = copy.deepcopy(pool)
        first = run(d)
        second = run(d)                                                            # the very same dict object again
        rev = run({nm: copy.deepcopy(pool[nm]) for nm in reversed(list(pool))})    # other order
    except monitors.StepBudgetExceeded:
        return sc.skipped(idx, "budget")
    for label, got in (("first batch run", first), ("same dict run again", second), ("reversed order", rev)):
        for nm in pool:
            for key in (nm, nm + "_no_prune"):
                if got.get(key) != ref[nm].get(key):
                    problems.append({"run": label, "entry": key, "problem": "%s: entry %s differs from running that game alone" % (label, key),
                                     "got": repr(got.get(key))[:300], "alone": repr(ref[nm].get(key))[:300]})
    if problems:
        res.update(verdict="violated", what=problems[0]["problem"], witness=problems[:3], case={"batch": idx, "seed": seed})
    return res


XPROC_CLASSES = ["G-DUPL", "G-DUPL", "G-MIX", "G-TIE", "G-DIGIT", "G-LEX", "G-EMPTY", "G-DEAD"]
XPROC_PER = 30


def decide_xproc(idx, seed):
    """'Solving the same description again through a fresh object' where the fresh object lives in ANOTHER interpreter process (what
    running the command twice does): XPROC_PER games are solved in three processes started with different string-hash seeds (and
    therefore different set / dict iteration orders and object addresses); everything they print must be the same text."""
    import json
    import os
    import subprocess
    from .. import bootstrap
    pool = []
    for j in range(XPROC_PER):
        rng = games.case_rng(seed, PID, "XPROC", idx * XPROC_PER + j)
        cls = XPROC_CLASSES[j % len(XPROC_CLASSES)]
        for _ in range(20):
            gd = games.gen_class(rng, cls)
            if gd is None:
                continue
            an = analysis.Analysis(gd)
            try:
                if an.stopping and an.finals_absorbing and max(an.tmax) < 200 and \
                        all(monitors.observed_solve(games.to_solver(gd), p_, sc.limit_for(an)).status in ("ok", "nosol") for p_ in (True, False)):
                    break            # only games whose solves finish here go to the other processes (no budget there, only a timer)
            except Exception:
                pass
            gd = None
        if gd is not None:
            pool.append(gd)
    res = {"idx": idx, "verdict": "held", "stats": {"xproc_pools": 1, "xproc_games": len(pool), "xproc_processes": 0}, "tags": ["XPROC"],
           "key": "xproc%d" % idx, "nontrivial": True}
    payload = json.dumps([games.enc_game(g) for g in pool])
    outs = {}
    for hs in ("0", "1", "4242"):
        env = dict(os.environ, PYTHONPATH=bootstrap.VERIF, PYTHONHASHSEED=hs)
        try:
            p = subprocess.run([bootstrap.PYTHON, "-B", "-m", "vf.xproc_solve", "5"], input=payload, capture_output=True, text=True,
                               env=env, timeout=900, cwd=bootstrap.VERIF)
        except subprocess.TimeoutExpired:
            res.update(verdict="inconclusive", what="solver process with PYTHONHASHSEED=%s did not finish" % hs)
            return res
        if p.returncode != 0:
            res.update(verdict="violated", what="solving in a separate process (PYTHONHASHSEED=%s) failed: %s" % (hs, p.stderr[-300:]),
                       case={"xproc": idx, "seed": seed})
            return res
        outs[hs] = json.loads(p.stdout)
        res["stats"]["xproc_processes"] += 1
    ref = outs["0"]
    problems = []
    for hs, got in outs.items():
        for j, (a, b) in enumerate(zip(ref, got)):
            for k in a:
                if "TIMEOUT" in (a[k], b[k]):
                    res["stats"]["xproc_timeouts"] = res["stats"].get("xproc_timeouts", 0) + 1
                    continue
                if a[k] != b[k]:
                    problems.append({"game": games.to_solver(pool[j]), "what": k, "PYTHONHASHSEED=0": a[k][:400], "PYTHONHASHSEED=%s" % hs: b[k][:400],
                                     "problem": "%s of the same description differs between two interpreter processes" % k})
    if problems:
        res.update(verdict="violated", what=problems[0]["problem"], witness=problems[:3], case={"xproc": idx, "seed": seed})
    return res


def _plan_base(tier, seed):
    return sc.plan_classes(tier, TABLE, per_q=25, per_t=100, mult_t=8) + harness.split("BATCH", 60 if tier == "quick" else 600, 10) + \
        harness.split("XPROC", 12 if tier == "quick" else 120, 1 if tier == "quick" else 4)


def plan(tier, seed):
    from . import threads_common
    return threads_common.plan_threads(tier) + _plan_base(tier, seed)


def run_batch(batch):
    if batch["cls"] == "THREADS":
        from . import threads_common
        yield from threads_common.run(batch, PID, None, EMIT_START, 'solve', None)
        return
    monitors.install()
    for idx in range(batch["start"], batch["start"] + batch["count"]):
        EMIT_START(idx)
        if batch["cls"] == "BATCH":
            yield decide_batch(idx, batch["seed"])
            continue
        if batch["cls"] == "XPROC":
            yield decide_xproc(idx, batch["seed"])
            continue
        rng = games.case_rng(batch["seed"], PID, batch["cls"], idx)
        gd = fig55() if batch["cls"] == "FIG55" else games.gen_class(rng, batch["cls"])
        if gd is None:
            yield sc.skipped(idx, "generator gave up")
            continue
        yield decide(gd, idx, batch["cls"], batch["tier"], rng)


def replay(case):
    if "threads" in case:
        from . import threads_common
        return threads_common.replay(case, PID, None, 'solve', None)
    monitors.install()
    if "batch" in case:
        return decide_batch(case["batch"], case.get("seed", 0))
    if "xproc" in case:
        return decide_xproc(case["xproc"], case.get("seed", 0))
    gd = games.dec_game(case["game"])
    an = analysis.Analysis(gd)
    pr, k, removed = run_history(gd, [tuple(x) for x in case["history"]], sc.limit_for(an), case.get("rewards_kind"), case.get("finals_kind"))
    if pr:
        return {"verdict": "violated", "what": pr[0]["problem"], "witness": pr[:3], "case": case}
    return {"verdict": "held"}


if __name__ == "__main__":
    sys.exit(harness.main(sys.modules[__name__]))
