"""Shared case loop for the solver-side checks (C02-C06, C14)."""
from .. import harness, monitors, games, analysis
from ..oracle import OracleInconclusive


SLOW_FIRST = ("G-VSLOW", "G-VSLOWR", "G-SLOW", "G-AUXFAST", "G-RNEAR", "G-NEARC", "G-GAPLOOP")


def plan_classes(tier, table, per_q=50, per_t=200, mult_t=12):
    b = []
    for cls, k in table:
        total = k if tier == "quick" else k * mult_t
        # classes whose cases cost seconds each are split into small batches and scheduled first (no long tail at the end)
        per = (per_q if tier == "quick" else per_t)
        if cls in ("G-VSLOW", "G-VSLOWR"):
            per = 1
        elif cls in SLOW_FIRST:
            per = max(10, per // 3)
        b += harness.split(cls, total, per)
    b.sort(key=lambda x: 0 if x["cls"] in ("G-VSLOW", "G-VSLOWR") else (1 if x["cls"] in SLOW_FIRST else 2))
    for x in b:
        if x["cls"] in ("G-VSLOW", "G-VSLOWR"):
            x["env"] = {"VERIF_LOGLEVEL": "", "PYTHONOPTIMIZE": ""}        # never combine the slowest cases with the DEBUG log level
    return b


def iter_games(batch, pid, emit_start):
    cls, seed = batch["cls"], batch["seed"]
    for idx in range(batch["start"], batch["start"] + batch["count"]):
        emit_start(idx)
        rng = games.case_rng(seed, pid, cls, idx)
        gd = games.gen_class(rng, cls)
        yield idx, gd


def limit_for(an):
    n, m = an.n, games.n_transitions(an.gd)
    if n <= 2 and not an.stopping:
        return 3000 * (n + m) + 2000          # one- and two-state games outside the stopping class: the overrun is cheap
    if an.stopping and an.finals_absorbing:
        try:
            tmax = an.tmax_solve
        except OracleInconclusive:
            tmax = max(max(an.tmax), 5000)
    else:
        # not a stopping game (in the property's sense): the reward iteration may legitimately never end; a modest budget is enough
        # for the reachability part, which is what the checks that admit such games look at
        tmax = max(an.tmax) if an.stopping else 50
    lim = monitors.step_limit(n, m, tmax)
    cap = an.gd.get("_sweep_cap")
    if cap:
        lim = min(lim, int(cap * (n + m) + 1e5))
    return lim


def solve_both(gd, an):
    lim = limit_for(an)
    return {p: monitors.observed_solve(games.to_solver(gd), p, lim) for p in (True, False)}


def skipped(idx, why):
    return {"idx": idx, "verdict": "skipped", "what": why}
