"""Shared case loop for the solver-side checks (C02-C06, C14)."""
from .. import harness, monitors, games, analysis
from ..oracle import OracleInconclusive


def plan_classes(tier, table, per_q=50, per_t=200, mult_t=12):
    b = []
    for cls, k in table:
        total = k if tier == "quick" else k * mult_t
        b += harness.split(cls, total, per_q if tier == "quick" else per_t)
    return b


def iter_games(batch, pid, emit_start):
    cls, seed = batch["cls"], batch["seed"]
    for idx in range(batch["start"], batch["start"] + batch["count"]):
        emit_start(idx)
        rng = games.case_rng(seed, pid, cls, idx)
        gd = games.gen_class(rng, cls)
        yield idx, gd


def limit_for(an):
    n, m = an.n, games.n_transitions(an.gd)
    if an.stopping and an.finals_absorbing:
        try:
            tmax = an.tmax_solve
        except OracleInconclusive:
            tmax = max(max(an.tmax), 5000)
    else:
        # not a stopping game (in the property's sense): the reward iteration may legitimately never end; a modest budget is enough
        # for the reachability part, which is what the checks that admit such games look at
        tmax = max(an.tmax) if an.stopping else 50
    return monitors.step_limit(n, m, tmax)


def solve_both(gd, an):
    lim = limit_for(an)
    return {p: monitors.observed_solve(games.to_solver(gd), p, lim) for p in (True, False)}


def skipped(idx, why):
    return {"idx": idx, "verdict": "skipped", "what": why}
