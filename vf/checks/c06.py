"""C06 - every well-formed stopping game is solved or declared unsolvable (DESIGN 4/C06)."""
import sys
from fractions import Fraction as F
from .. import harness, monitors, games, analysis, oracle
from ..oracle import OracleInconclusive, P1, P2, PR
from . import solver_common as sc

PID = "C06"
LEVEL = "exploration"
RULE = ("well-formed stopping games with absorbing finals (G-DEAD incl. rewarded dead loops and adjacent/separated dead successors, "
        "G-CYC, G-SLOW, G-ACY, G-LEX, G-TIE, G-TINY, games whose initial state is cut off from the finals or forced away by Player 2) "
        "solved by the real solve() in both pruning modes under a logical step budget of max(2e4, 400*T_max) sweeps; the "
        "solvable/unsolvable split is compared with the exact graph criterion (state 0 in W).  Non-trivial: the game has a dead "
        "(value-0) state reachable from the initial state, a cycle, or an initial value of 0; distinct = game hash.")
RULE += (' Also (rounds 5-6): G-GAP/G-GAPLOOP (values 1e-9..1e-4 apart around the 6-digit resolution), G-CORR, G-BIGR, G-DIGIT (digit-only / ambiguous action names), G-RETRY (cycles through state 0), G-FINREP (final states listed repeatedly, as list or tuple); a seventh of the solves pass the pruning flag as the int 1/0; an eighth of the batches each run with the root logger at DEBUG, under python -O, and with warnings raised on behalf of the repository turned into errors. G-TAIL: unreachable tails of 1050-1300 states.')
FLOOR = 300
REQUIRED = ["solve.ok", "solve.nosol"]
ASSUMPTIONS = ["'never iterates forever' is decided in its bounded form: a solve must finish within max(2e4, 400*T_max) sweeps' worth of "
               "backward jumps (geometric convergence needs about 30*T_max); an overrun is a violation only with a divergence witness "
               "(a value above 2*R_max+1, R_max = exact max-max total reward), otherwise inconclusive",
               "stopping-ness and absorbing finals are decided by the oracle's MEC test, never assumed from the generator"]
TIMEOUT = 1800
TABLE = [("G-DEAD", 900), ("G-CYC", 600), ("G-SLOW", 150), ("G-ACY", 500), ("G-LEX", 200), ("G-TIE", 150), ("G-TINY", 200),
         ("G-CUT", 300), ("G-TINYB", 300), ("G-INIT0F", 200), ("G-NOREACH", 200), ("G-ACYNF", 200), ("G-CYCNF", 150), ("G-INIT0NF", 100), ("G-AUXFAST", 40), ("G-MIX", 500), ("G-SMALLX", 400), ("G-VSLOW", 2), ("G-HALF", 60), ("G-LATE", 60), ("G-EMPTY", 150), ("G-GAP", 200), ("G-GAPLOOP", 400), ("G-CORR", 100), ("G-BIGR", 60), ("G-RETRY", 100), ("G-FINREP", 300)]


def gen_cut(rng):
    """Initial state cannot reach a final, or Player 2 can force it away."""
    base = games.gen_acy(rng, nmax=9) if rng.random() < 0.5 else (games.gen_cyc(rng, nmax=9) or games.gen_acy(rng, nmax=9))
    g = games.to_oracle(base)
    n = g.n
    sinks = [s for s in range(n) if g.absorbing(s) and s not in g.finals]
    players, tl, rewards = list(base["players"]), [list(t) for t in base["transition_list"]], list(base["rewards"])
    if not sinks:
        players.append(PR); rewards.append(F(0)); tl.append([(F(1), n)]); sinks = [n]
    z = sinks[0]
    style = rng.choice(["p2", "cut", "p2deep"])
    if style == "cut":
        # initial state moves only into a closed dead region
        d = len(players)
        players.append(PR); rewards.append(games.rand_reward(rng)); tl.append([(F(1, 2), z), (F(1, 2), d)])
        players[0], tl[0] = rng.choice([P1, PR, P2]), None
        tl[0] = [(F(1), d)] if players[0] == PR else [("a", d), ("b", z)]
    elif style == "p2":
        old0 = len(players)
        players.append(players[0]); rewards.append(rewards[0]); tl.append(tl[0])
        players[0], tl[0] = P2, [("go", old0), ("trap", z)]
    else:
        old0 = len(players)
        players.append(players[0]); rewards.append(rewards[0]); tl.append(tl[0])
        mid = len(players)
        players.append(P2); rewards.append(games.rand_reward(rng)); tl.append([("go", old0), ("trap", z)])
        players[0], tl[0] = PR, [(F(1, 3), mid), (F(2, 3), mid)]
    out = {"rewards": rewards, "players": players, "transition_list": tl, "final_states": list(base["final_states"])}
    return games.renumber_random(rng, out)


def decide(gd, idx, cls):
    an = analysis.Analysis(gd)
    res = {"idx": idx, "verdict": "held", "stats": {}, "tags": [cls], "key": games.canon_key(gd)}
    try:
        if an.stopping and not an.finals_absorbing:
            return decide_split_only(gd, idx, cls, an)
        if not (an.stopping and an.finals_absorbing):
            return sc.skipped(idx, "not a stopping game with absorbing finals")
        tmax = float(an.tmax_solve)
        W = an.W
        v = an.reach["v"]
    except OracleInconclusive as e:
        res.update(verdict="inconclusive", what="oracle: " + str(e))
        return res
    g = an.g
    n = an.n
    solvable = 0 in W
    limit = sc.limit_for(an)
    problems, known = [], []
    closure = oracle.reachable_from(g, 0)
    dead_reachable = any(v[s] == 0 for s in closure)
    res["nontrivial"] = dead_reachable or an.cyclic or not solvable
    res["stats"]["games_dead_reachable"] = int(dead_reachable)
    res["stats"]["games_unsolvable"] = int(not solvable)
    res["stats"]["max_T"] = tmax
    for prune in (True, False):
        out = monitors.observed_solve(games.to_solver(gd), prune, limit)
        mode = "prune" if prune else "no-prune"
        res["stats"]["max_steps_over_budget"] = max(res["stats"].get("max_steps_over_budget", 0.0), out.steps / limit)
        res["stats"]["outcome_" + out.status] = res["stats"].get("outcome_" + out.status, 0) + 1
        if out.status == "ok":
            r = out.result
            res["stats"]["max_sweeps"] = max(res["stats"].get("max_sweeps", 0), r[4], r[5])
            if prune and not solvable:
                problems.append({"mode": mode, "problem": "game solved although the initial state's reachability value is 0"})
            shape_ok = isinstance(r, tuple) and len(r) == 8 and all(isinstance(r[i], list) and len(r[i]) == n for i in (0, 1, 2, 3, 6, 7))
            if not shape_ok:
                problems.append({"mode": mode, "problem": "result is not a complete 8-tuple with one entry per state"})
            else:
                for i in (2, 3, 6, 7):
                    if any(not isinstance(x, (int, float)) or isinstance(x, bool) or x != x or x in (float("inf"), float("-inf")) for x in r[i]):
                        problems.append({"mode": mode, "problem": "result vector %d contains a non-number" % i})
                for s in range(n):
                    isp = gd["players"][s] != PR
                    for i in (0, 1):
                        if isp != isinstance(r[i][s], list):
                            problems.append({"mode": mode, "problem": "strategy entry of wrong kind", "state": s})
                            break
        elif out.status == "nosol":
            if not prune:
                problems.append({"mode": mode, "problem": "'no solution' raised with pruning off"})
            elif solvable:
                band = analysis.DELTA * max(float(an.tmax[0]), 1.0) + analysis.eps_fp(v[0])
                w = {"mode": mode, "problem": "'no solution' raised although the initial state's value is positive",
                     "value": str(v[0]), "value_float": float(v[0])}
                # the open finding is: the iteration stops with state 0 still at EXACTLY 0 (seen in the unpruned run, whose
                # reachability phase is the same computation); a positive reported value that is then called 'no solution' is not it
                unpruned = monitors.observed_solve(games.to_solver(gd), False, limit)
                still_zero = unpruned.status == "ok" and unpruned.result[3][0] == 0
                w["unpruned_reports"] = unpruned.result[3][0] if unpruned.status == "ok" else unpruned.status
                if float(v[0]) <= band and still_zero:
                    known.append(w)
                else:
                    problems.append(w)
        elif out.status in ("valueerror", "exception"):
            problems.append({"mode": mode, "problem": "solve failed with %s: %s" % (out.exc, out.msg)})
        elif out.status == "budget":
            d = out.diag or {}
            try:
                # bound over the game the solver may legitimately have built (near-tied actions included); None = no finite bound
                rmax = an.rmax_tolerant(prune)
                rmax = float(rmax) if rmax is not None else None
            except OracleInconclusive:
                rmax = None
            near = None
            rec = out.prune_rec
            if prune and solvable and rec and rec.get("strategies") is not None:
                # what the solver itself reported at its pruning step (hooked): reachability strategies and probabilities
                try:
                    near = analysis.near_tie_cycle(an, gd, (None, rec["strategies"], None, rec["reach"]))
                except OracleInconclusive:
                    near = None
            if near is not None:
                known.append({"mode": mode, "finding": "near-tie-closes-cycle", "problem": "solver does not terminate: a strictly worse action whose reported value "
                              "rounds to the best one's 6-digit cell is kept as reachability-optimal, and pruning then leaves a probability-1 cycle",
                              "value": str(v[0]), "diag": d, **near})
            elif d.get("phase") == "other":
                # the graph steps (backward search, restriction, pruning, blanking) are finite algorithms needing at most ~n^2 steps;
                # exhausting a budget of >= 2e4 sweeps' worth of jumps there is a loop that does not end
                problems.append({"mode": mode, "problem": "solver does not terminate: loop in %s exceeded the step budget (%d backward jumps)"
                                 % (d.get("function"), out.steps), "diag": d})
            elif d.get("all_quiet"):
                problems.append({"mode": mode, "problem": "solver does not terminate: the %s iteration keeps running although no tracked quantity changes by more than the threshold any more"
                                 % d.get("phase"), "diag": d})
            elif rmax is not None and d.get("max_expected_rewards", 0) > 2 * rmax + 1:
                problems.append({"mode": mode, "problem": "solver does not terminate: value iteration diverges (value %.3g above 2*R_max+1=%.3g after the step budget)"
                                 % (d.get("max_expected_rewards"), 2 * rmax + 1), "diag": d})
            elif rmax is not None and d.get("max_aux", 0) > 2 * rmax + 1:
                problems.append({"mode": mode, "problem": "solver does not terminate: auxiliary reward iteration diverges", "diag": d})
            else:
                res["stats"]["budget_inconclusive"] = res["stats"].get("budget_inconclusive", 0) + 1
                res.update(verdict="inconclusive", what="step budget overrun without divergence witness: %s" % d)
    if problems:
        res.update(verdict="violated", what="%s (%s)" % (problems[0]["problem"], problems[0]["mode"]), witness=problems[:4],
                   case={"game": games.enc_game(gd)})
    elif known and res["verdict"] in ("held", "inconclusive"):         # an established finding outranks a budget overrun of the other mode
        res.update(verdict="known", finding=known[0].get("finding", "sub-tolerance-positive-value"), what="%s: v*(0)=%s" % (known[0]["problem"], known[0]["value"]),
                   witness=known[:2], case={"game": games.enc_game(gd)})
    if idx % 101 == 0 and n <= 9:
        res["sample"] = {"class": cls, "game": games.to_solver(gd), "exact_value_of_state_0": str(v[0]), "solvable": solvable}
    return res


def decide_tail(idx, seed):
    """A solvable game plus a long TAIL of states nothing leads into (t_n -> ... -> t_1 -> the game): with pruning they are peeled
    off one per pass of the clean-up loop.  The length is just above the interpreter's default recursion limit; the game itself is
    a 3-state game whose answer is known in closed form (value 1/2), so no oracle run is needed on the 1000+ states."""
    rng = games.case_rng(seed, PID, "G-TAIL", idx)
    n = [1050, 1120, 1300][idx % 3]
    Pr, P2_ = "Probabilistic", "Player 2"
    rewards = [1, 0, 0] + [rng.randint(0, 3) for _ in range(n)]
    players = [Pr, Pr, Pr] + [rng.choice([Pr, P2_]) for _ in range(n)]
    tl = [[(0.5, 1), (0.5, 2)], [(1, 1)], [(1, 2)]]
    for k in range(n):
        tgt = rng.choice([0, 1, 2]) if k == 0 else 3 + k - 1
        tl.append([(1, tgt)] if players[3 + k] == Pr else [("a", tgt)])
    game = {"rewards": rewards, "players": players, "transition_list": tl, "final_states": [1]}
    res = {"idx": idx, "verdict": "held", "stats": {"tail_games": 1, "max_tail": n}, "tags": ["G-TAIL"], "key": "tail:%d:%d" % (idx, n), "nontrivial": True}
    problems = []
    for prune in (True, False):
        out = monitors.observed_solve({k: (list(v) if k != "transition_list" else [list(t) for t in v]) for k, v in game.items()}, prune, 2 * 10 ** 9)
        res["stats"]["outcome_" + out.status] = res["stats"].get("outcome_" + out.status, 0) + 1
        if out.status != "ok":
            problems.append({"mode": "prune" if prune else "no-prune", "problem": "a solvable game with an unreachable tail of %d states is not solved: %s %s %s"
                             % (n, out.status, out.exc, (out.msg or "")[:120])})
        elif abs(out.result[3][0] - 0.5) > 1e-9 or abs(out.result[2][0] - 1.0) > 1e-6 or len(out.result[2]) != n + 3:
            problems.append({"mode": "prune" if prune else "no-prune", "problem": "wrong result for the 3-state core of a game with an unreachable tail",
                             "got": [out.result[3][0], out.result[2][0]]})
    if problems:
        res.update(verdict="violated", what="%s (%s)" % (problems[0]["problem"], problems[0]["mode"]), witness=problems[:2], case={"tail": idx, "seed": seed})
    return res


def decide_split_only(gd, idx, cls, an):
    """Games whose final states are not all absorbing are outside the property's definition of a stopping game as far as the
    reward iteration is concerned (conditioning may legitimately leave a rewarded self-loop on a final state).  The clauses that do
    not depend on that are still judged: 'no solution' exactly when the initial value is 0, and no other error."""
    res = {"idx": idx, "verdict": "held", "stats": {"split_only_games": 1}, "tags": [cls, "split-only"], "key": games.canon_key(gd), "nontrivial": True}
    try:
        W = an.W
        v = an.reach["v"]
        limit = monitors.step_limit(an.n, games.n_transitions(gd), max(an.tmax))
    except OracleInconclusive as e:
        res.update(verdict="inconclusive", what="oracle: " + str(e))
        return res
    problems = []
    for prune in (True, False):
        out = monitors.observed_solve(games.to_solver(gd), prune, limit)
        mode = "prune" if prune else "no-prune"
        if out.status == "nosol":
            if not prune:
                problems.append({"mode": mode, "problem": "'no solution' raised with pruning off"})
            elif 0 in W and float(v[0]) > analysis.DELTA * max(float(an.tmax[0]), 1.0) + 1e-9:
                problems.append({"mode": mode, "problem": "'no solution' raised although the initial state's value is positive", "value": str(v[0])})
        elif out.status == "ok" and prune and 0 not in W:
            problems.append({"mode": mode, "problem": "game solved although the initial state's reachability value is 0"})
        elif out.status in ("valueerror", "exception"):
            problems.append({"mode": mode, "problem": "solve failed with %s: %s" % (out.exc, out.msg)})
        elif out.status == "budget":
            res["stats"]["split_only_budget_not_judged"] = res["stats"].get("split_only_budget_not_judged", 0) + 1
    if problems:
        res.update(verdict="violated", what="%s (%s)" % (problems[0]["problem"], problems[0]["mode"]), witness=problems[:3], case={"game": games.enc_game(gd)})
    return res


def decide_edit(idx, seed):
    """The caller solves a description, edits its transition lists IN PLACE (same list objects) so that the initial state gains or
    loses its way to the final states, and solves it again with a fresh game object: the second solve must be the solve of the
    edited description (anything remembered from the first one - by identity, or by equality with a live reference - is stale)."""
    import copy
    rng = games.case_rng(seed, PID, "G-EDIT", idx)
    gd = None
    for _ in range(50):
        gd = games.gen_class(rng, rng.choice(["G-ACY", "G-CYC", "G-DEAD"]))
        if gd is None:
            continue
        an = analysis.Analysis(gd)
        if an.stopping and an.finals_absorbing and 0 in an.W and not an.g.absorbing(0):
            break
        gd = None
    if gd is None:
        return sc.skipped(idx, "generator gave up")
    g = an.g
    sinks = [s for s in range(g.n) if g.absorbing(s) and s not in g.finals]
    desc = games.to_solver(gd)
    if not sinks:
        desc["rewards"].append(0); desc["players"].append("Probabilistic"); desc["transition_list"].append([(1, len(desc["players"]) - 1)])
        sinks = [len(desc["players"]) - 1]
    z = sinks[0]
    row0 = desc["transition_list"][0]
    good = list(row0)
    cut = [(a, z) for a, _ in good]                 # same labels / probabilities, every move of state 0 now leads to the sink
    order = idx % 2                                  # 0: unsolvable first, then solvable ; 1: the other way round
    res = {"idx": idx, "verdict": "held", "stats": {"edit_sequences": 1}, "tags": ["G-EDIT"], "key": "edit%d" % idx, "nontrivial": True}
    tad = monitors.mods()["tad"]
    limit = sc.limit_for(an)
    problems = []
    for step, rows in enumerate([cut, good] if order == 0 else [good, cut]):
        row0[:] = rows                                # in-place edit of the caller's own inner list
        want_solvable = rows is good
        out = monitors.observed_solve(desc, True, limit)            # first: the caller's own (edited) lists
        ref = monitors.observed_solve(copy.deepcopy(desc), True, limit)
        if (out.status, out.result, out.msg) != (ref.status, ref.result, ref.msg):
            problems.append({"mode": "prune", "problem": "after an in-place edit of the description, solving it differs from solving a deep copy of it (step %d)" % step,
                             "got": out.brief(), "reference": ref.brief()})
        if want_solvable and out.status == "nosol":
            problems.append({"mode": "prune", "problem": "'no solution' raised although the initial state's value is positive (after an in-place edit)"})
        if not want_solvable and out.status == "ok":
            problems.append({"mode": "prune", "problem": "game solved although the initial state's reachability value is 0 (after an in-place edit)"})
    if problems:
        res.update(verdict="violated", what="%s (%s)" % (problems[0]["problem"], problems[0]["mode"]), witness=problems[:3], case={"edit": idx, "seed": seed})
    return res


def plan(tier, seed):
    tails = [dict(b, env={"VERIF_LOGLEVEL": "", "PYTHONOPTIMIZE": ""}) for b in harness.split("G-TAIL", 3 if tier == "quick" else 9, 1)]
    return tails + sc.plan_classes(tier, TABLE) + harness.split("G-EDIT", 200 if tier == "quick" else 2000, 50)


def _gen(batch, idx):
    rng = games.case_rng(batch["seed"], PID, batch["cls"], idx)
    if batch["cls"] == "G-CUT":
        return gen_cut(rng)
    return games.gen_class(rng, batch["cls"])


def run_batch(batch):
    monitors.install()
    monitors.MON.flags.update(alias=False)
    for idx in range(batch["start"], batch["start"] + batch["count"]):
        EMIT_START(idx)
        if batch["cls"] == "G-EDIT":
            yield decide_edit(idx, batch["seed"])
            continue
        if batch["cls"] == "G-TAIL":
            yield decide_tail(idx, batch["seed"])
            continue
        gd = _gen(batch, idx)
        if gd is None:
            yield sc.skipped(idx, "generator gave up")
            continue
        yield decide(gd, idx, batch["cls"])


def replay(case):
    monitors.install()
    if "edit" in case:
        return decide_edit(case["edit"], case.get("seed", 0))
    if "tail" in case:
        return decide_tail(case["tail"], case.get("seed", 0))
    return decide(games.dec_game(case["game"]), 0, "REPLAY")


if __name__ == "__main__":
    sys.exit(harness.main(sys.modules[__name__]))
