"""Shared THREADS class: the real code called from several threads of one interpreter (vf.thread_solve), concurrent outcomes
compared with the sequential outcomes of the same process.  Each check looks at the components its property is about."""
import json
import os
import subprocess
from fractions import Fraction as F
from .. import bootstrap, games
from ..oracle import P1, P2, PR


def wide_game(rng, k, owner0=None):
    """State 0 (probabilistic or Player 1) with k successors; every second one is dead (leads to the sink), the others reach the
    final state through their own small probabilistic state and carry different rewards."""
    owner0 = owner0 or rng.choice([PR, PR, PR, P1])
    players, tl, rewards = [owner0, PR, PR], [None, [(F(1), 1)], [(F(1), 2)]], [F(rng.randint(0, 3)), F(0), F(0)]
    succ = []
    for i in range(k):
        s = len(players)
        if i % 2:
            players.append(PR); tl.append([(F(1), 2)]); rewards.append(F(rng.randint(0, 9)))
        else:
            q = rng.choice([F(1, 2), F(1, 4), F(3, 4), F(1)])
            players.append(PR); rewards.append(F(rng.randint(0, 9)))
            tl.append([(F(1), 1)] if q == 1 else [(q, 1), (1 - q, 2)])
        succ.append(s)
    if owner0 == PR:
        tl[0] = [(F(1, k), s) for s in succ]
    else:
        tl[0] = [("a%d" % i, s) for i, s in enumerate(succ)]
    return {"rewards": rewards, "players": players, "transition_list": tl, "final_states": [1]}


def solve_pool(rng, quick=True):
    """Ordered so that, with 4 threads taking items i % 4 == t in order, games of the same kind run at the same time: four wide
    games first (long pruning loops over one state's transitions), then four large layered games (long sweeps and long strategy
    extraction), then small games, then a long chain."""
    pool = []
    for k in (3000, 2500, 2000, 3500):
        g = wide_game(rng, k)
        pool.append(g)
    for n in ([500, 800, 600, 700] if quick else [900, 800, 1200, 700]):
        pool.append(games.gen_layered(rng, n, back=0.0, owners=(0.35, 0.3, 0.35)))
    for _ in range(4):
        gd = None
        while gd is None:
            gd = games.gen_class(rng, rng.choice(["G-DEAD", "G-ACY", "G-TIE", "G-LEX"]))
        pool.append(gd)
    # a chain from the initial state, numbered against its direction (two sweeps are enough): a long backward search
    n = 6000
    pool.append({"rewards": [F(1), F(0)] + [F(1)] * (n - 2), "players": [PR] * n,
                 "transition_list": [[(F(1), n - 1)], [(F(1), 1)]] + [[(F(1), k - 1)] for k in range(2, n)], "final_states": [1]})
    return pool


def run_tool(job, timeout=240):
    env = dict(os.environ, PYTHONPATH=bootstrap.VERIF, PYTHONHASHSEED="0")
    env.pop("VERIF_LOGLEVEL", None)
    p = subprocess.run([bootstrap.PYTHON, "-B", "-m", "vf.thread_solve"], input=json.dumps(job), capture_output=True, text=True, env=env,
                       timeout=timeout, cwd=bootstrap.VERIF)
    if p.returncode != 0:
        return None, p.stderr[-600:]
    return json.loads(p.stdout), None


def decide_threads(idx, seed, pid, components, tier="quick"):
    """components: names of result parts (see vf.thread_solve) this property is about; None = any difference counts."""
    rng = games.case_rng(seed, pid, "THREADS", idx)
    mode = "same_object" if idx % 4 == 3 else "solve"
    pool = solve_pool(rng, tier == "quick")
    if mode == "same_object":
        pool = [pool[0], pool[4], pool[8], pool[9], pool[1]]
    job = {"mode": mode, "games": [games.enc_game(g) for g in pool], "threads": 3 if mode == "same_object" else 4, "rounds": (4 if tier == "quick" else 10) if (idx // 2) % 4 == 0 else (2 if tier == "quick" else 4),
           "yield_every": [0, 3000, 1000, 3000][(idx // 2) % 4], "seed": idx}
    res = {"idx": idx, "verdict": "held", "tags": ["THREADS", "threads:" + mode], "key": "threads:%s:%d" % (mode, idx), "nontrivial": True,
           "stats": {"thread_pools": 1}}
    try:
        out, err = run_tool(job)
    except subprocess.TimeoutExpired:
        res.update(verdict="inconclusive", what="thread workload did not finish within the wall-clock limit")
        return res
    if out is None:
        res.update(verdict="inconclusive", what="thread workload process failed: " + str(err))
        return res
    res["stats"].update({"concurrent_solves": out["concurrent_runs"], "max_threads_active": out["max_threads_active"],
                         "thread_mismatches_any_component": out["n_mismatches"]})
    if out["max_threads_active"] < 2:
        res.update(verdict="inconclusive", what="threads never overlapped")
        return res
    mine = [m for m in out["mismatches"] if components is None or "status" in m["differs"] or any(c in m["differs"] for c in components)]
    if mine:
        m = mine[0]
        res.update(verdict="violated", what="solved concurrently with other games in another thread (%s), a game's %s differ from the same solve run alone"
                   % (mode, "/".join(m["differs"])), witness=mine[:3], case={"threads": idx, "seed": seed, "tier": tier})
    return res


def plan_threads(tier):
    from .. import harness
    return harness.split("THREADS", 8 if tier == "quick" else 27, 1)


def decide_threads_graphs(idx, seed, pid, tier="quick"):
    """reverse_dfs called concurrently on unrelated graphs (C07)."""
    import random
    rng = games.case_rng(seed, pid, "THREADS", idx)
    graphs = []
    for n in (20000, 30000, 5000, 8000, 12000, 2000, 2000, 500):
        style = rng.choice(["chain", "random", "ladder"])
        if style == "chain":
            tl = [[(1, min(i + 1, n - 1))] for i in range(n)]
            finals = [n - 1]
        elif style == "ladder":
            tl = [[("d", min(i + 1, n - 1)), ("x", (i * 7) % n)] for i in range(n)]
            finals = [n - 1, n // 2]
        else:
            tl = [[(1, rng.randrange(n)) for _ in range(rng.choice([1, 2, 3]))] for _ in range(n)]
            finals = [rng.randrange(n) for _ in range(3)]
        graphs.append({"tl": tl, "finals": finals})
    job = {"mode": "reverse_dfs", "games": graphs, "threads": 4, "rounds": 4 if tier == "quick" else 10, "yield_every": [0, 3000][idx % 2], "seed": idx}
    res = {"idx": idx, "verdict": "held", "tags": ["THREADS"], "key": "threads:rd:%d" % idx, "nontrivial": True, "stats": {"thread_pools": 1}}
    try:
        out, err = run_tool(job)
    except subprocess.TimeoutExpired:
        res.update(verdict="inconclusive", what="thread workload did not finish within the wall-clock limit")
        return res
    if out is None:
        res.update(verdict="inconclusive", what="thread workload process failed: " + str(err))
        return res
    res["stats"].update({"concurrent_searches": out["concurrent_runs"], "max_threads_active": out["max_threads_active"]})
    if out["max_threads_active"] < 2:
        res.update(verdict="inconclusive", what="threads never overlapped")
    elif out["mismatches"]:
        res.update(verdict="violated", what="backward search run concurrently with searches on other graphs returns something else than run alone",
                   witness=[{k: v for k, v in m.items()} for m in out["mismatches"][:2]], case={"threads": idx, "seed": seed, "tier": tier})
    return res


def decide_threads_batch(idx, seed, pid, pool_games, tier="quick"):
    """run_games called from worker threads (one thread alone for idx % 3 == 0: 'not the main thread' is the only difference)."""
    job = {"mode": "run_games", "games": pool_games, "threads": 1 if idx % 3 == 0 else 4, "rounds": 3, "yield_every": [0, 0, 3000][idx % 3], "seed": idx}
    res = {"idx": idx, "verdict": "held", "tags": ["THREADS"], "key": "threads:rg:%d" % idx, "nontrivial": True, "stats": {"thread_pools": 1}}
    try:
        out, err = run_tool(job)
    except subprocess.TimeoutExpired:
        res.update(verdict="inconclusive", what="thread workload did not finish within the wall-clock limit")
        return res
    if out is None:
        res.update(verdict="inconclusive", what="thread workload process failed: " + str(err))
        return res
    res["stats"].update({"batch_runs_in_threads": out["concurrent_runs"], "max_threads_active": out["max_threads_active"]})
    if out["mismatches"]:
        m = out["mismatches"][0]
        res.update(verdict="violated", what="run_games called from a worker thread gives other entries than called from the main thread",
                   witness=out["mismatches"][:2], case={"threads": idx, "seed": seed, "tier": tier})
    return res


def run(batch, pid, components, emit_start, kind="solve", pool_fn=None):
    for idx in range(batch["start"], batch["start"] + batch["count"]):
        emit_start(idx)
        if kind == "graphs":
            yield decide_threads_graphs(idx, batch["seed"], pid, batch.get("tier", "quick"))
        elif kind == "batch":
            yield decide_threads_batch(idx, batch["seed"], pid, pool_fn(idx, batch["seed"]), batch.get("tier", "quick"))
        else:
            yield decide_threads(idx, batch["seed"], pid, components, batch.get("tier", "quick"))


def replay(case, pid, components, kind="solve", pool_fn=None):
    if kind == "graphs":
        return decide_threads_graphs(case["threads"], case.get("seed", 0), pid, case.get("tier", "quick"))
    if kind == "batch":
        return decide_threads_batch(case["threads"], case.get("seed", 0), pid, pool_fn(case["threads"], case.get("seed", 0)), case.get("tier", "quick"))
    return decide_threads(case["threads"], case.get("seed", 0), pid, components, case.get("tier", "quick"))
