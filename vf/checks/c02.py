"""C02 - reported expected rewards are the values of the conditioned game (DESIGN 4/C02)."""
import sys
from .. import harness, monitors, games, analysis
from ..oracle import OracleInconclusive
from . import solver_common as sc, boards_common

PID = "C02"
LEVEL = "exploration"
NEEDS_DEPS = True
RULE = ("stopping games with absorbing finals (classes G-ACY/G-CYC/G-SLOW/G-DEAD/G-LEX/G-TIE/G-TIEC, rewards 0..20 and a few "
        "non-integers, 0..4 dead successors per state) solved by the real solve() in both pruning modes and through run_games; the "
        "conditioned game is rebuilt from the input and the REPORTED strategies/probabilities and solved exactly (Fractions, "
        "policy iteration + Bellman certificate); band delta*T_max(s).  Boards and committed inputs in Bellman-residual form.  "
        "Non-trivial: conditioning changed the game (a Player-1 action or dead branch removed) or the game is cyclic; "
        "distinct = game hash x pruning mode.")
RULE += (' Also (rounds 5-6): G-GAP/G-GAPLOOP (values 1e-9..1e-4 apart around the 6-digit resolution), G-CORR, G-BIGR, G-DIGIT (digit-only / ambiguous action names), G-RETRY (cycles through state 0), G-FINREP (final states listed repeatedly, as list or tuple); a seventh of the solves pass the pruning flag as the int 1/0; an eighth of the batches each run with the root logger at DEBUG, under python -O, and with warnings raised on behalf of the repository turned into errors. THREADS class: the real code called from 3-4 threads of one interpreter (1 us switch interval, yield injection at every ~1000-3000th executed line), each concurrent outcome compared with the sequential outcome of the same process. run_games entries and the INFO log lines (M-LOG) are compared with solve() on a tenth of the games.')
FLOOR = 300
REQUIRED = ["solve.ok", "step.vi_total_calls"]
ASSUMPTIONS = ["value form only for games that are stopping with zero-reward absorbing states (decided by the MEC test, never assumed)",
               "scope with pruning: states reachable from state 0 in the conditioned game; without: all states",
               "band |rew - V| <= 1e-6*T_max(s) + 1e-9*max(1,|V|)"]
TIMEOUT = 1800
TABLE = [("G-ACY", 700), ("G-CYC", 700), ("G-SLOW", 200), ("G-DEAD", 700), ("G-LEX", 350), ("G-TIE", 200), ("G-TIEC", 200), ("G-TINYB", 400), ("G-RNEAR", 100), ("G-AUXFAST", 40), ("G-DUPL", 300), ("G-MIX", 500), ("G-SMALLX", 200), ("G-VSLOW", 3), ("G-GAP", 300), ("G-GAPLOOP", 150), ("G-CORR", 200), ("G-BIGR", 150), ("G-DIGIT", 250), ("G-RETRY", 200), ("G-FINREP", 200)]


def _plan_base(tier, seed):
    return sc.plan_classes(tier, TABLE) + boards_common.plan_boards(tier)


def decide(gd, idx, cls, via_run_games=False):
    an = analysis.Analysis(gd)
    res = {"idx": idx, "verdict": "held", "stats": {}, "tags": [cls], "key": games.canon_key(gd)}
    try:
        if not (an.stopping and an.finals_absorbing):
            return sc.skipped(idx, "not a stopping game with absorbing finals")
        an.tmax
    except OracleInconclusive as e:
        res.update(verdict="inconclusive", what="oracle: " + str(e))
        return res
    outs = sc.solve_both(gd, an)
    problems = []
    nontrivial = an.cyclic
    compared = 0
    for prune, out in outs.items():
        mode = "prune" if prune else "no-prune"
        if out.status == "nosol" and prune:
            res["stats"]["nosol"] = res["stats"].get("nosol", 0) + 1
            continue
        if out.status != "ok":
            res["stats"]["no_result"] = res["stats"].get("no_result", 0) + 1
            continue
        try:
            pr, st, form, cond = analysis.check_rewards(gd, out.result, prune)
        except OracleInconclusive as e:
            res["stats"]["oracle_inconclusive"] = res["stats"].get("oracle_inconclusive", 0) + 1
            continue
        compared += 1
        res["stats"][form + "_form_solves"] = res["stats"].get(form + "_form_solves", 0) + 1
        res["stats"]["states_compared"] = res["stats"].get("states_compared", 0) + st["states"]
        res["stats"]["max_err_over_band"] = max(res["stats"].get("max_err_over_band", 0.0), st["max_err_over_band"])
        res["stats"]["max_T"] = max(res["stats"].get("max_T", 0.0), st["max_T"])
        removed = sum(len(a) - len(b) for a, b in zip(gd["transition_list"], cond.cgd["transition_list"]))
        if removed:
            nontrivial = True
            res["stats"]["solves_where_conditioning_removed"] = res["stats"].get("solves_where_conditioning_removed", 0) + 1
        dead = sum(1 for s, tr in enumerate(gd["transition_list"]) for _, t in tr if out.result[3][t] == 0)
        res["stats"]["max_dead_transitions"] = max(res["stats"].get("max_dead_transitions", 0), dead)
        problems += [dict(p, mode=mode) for p in pr]
        if via_run_games and prune:
            cr = monitors.mods()["conditionalrewards"]
            with monitors.budget(sc.limit_for(an) * 3):
                try:
                    d_ = games.to_solver(gd)
                    if (idx // 10) % 2:
                        # the description carries a prune_states entry of its own (a constructor argument, so a legal key): each
                        # of the two passes must still run in ITS mode
                        d_["prune_states"] = (idx // 20) % 2 == 1
                        res["stats"]["run_games_with_own_prune_key"] = 1
                    with monitors.capture_log() as cl_:
                        rr = cr.run_games({"g": d_})
                except monitors.StepBudgetExceeded:
                    rr = None
                finally:
                    monitors.MON.metering = False
            if rr is not None:
                res["stats"]["run_games_compared"] = 1
                # what the user reads without -s: the INFO log must state the same rewards, under the right label
                problems += [dict(q, mode="INFO log", state=None) for q in monitors.check_log_against(cl_.blocks(), rr)]
                if rr["g"]["rewards"] != out.result[2]:
                    problems.append({"problem": "run_games reports different rewards than solve()", "mode": "run_games"})
                if outs[False].status == "ok" and rr["g_no_prune"]["rewards"] != outs[False].result[2]:
                    problems.append({"problem": "run_games (no prune) reports different rewards than solve()", "mode": "run_games"})
    if idx % 3 == 0 and outs[True].status == "ok" and outs[False].status == "ok" and max(outs[True].result[5], outs[False].result[5]) < 20000:
        tad = monitors.mods()["tad"]
        desc = games.to_solver(gd)
        sg = tad.StochasticGame(desc["rewards"], desc["players"], desc["transition_list"], desc["final_states"], prune_states=True)
        lim = sc.limit_for(an)
        for prune in (True, False):
            o = monitors.observed_solve(desc, prune, lim, sg=sg)
            res["stats"]["same_object_solves"] = res["stats"].get("same_object_solves", 0) + 1
            if o.status == "ok" and o.result[2] != outs[prune].result[2]:
                problems.append({"mode": "same-object prune=%s" % prune, "state": None,
                                 "problem": "expected rewards differ when the same game object is solved again in the other mode",
                                 "got": o.result[2], "fresh": outs[prune].result[2]})
    if not compared and not problems:
        return sc.skipped(idx, "no solvable mode")
    res["nontrivial"] = nontrivial
    if problems:
        res.update(verdict="violated", what="%s (state %s, %s)" % (problems[0]["problem"], problems[0].get("state"), problems[0].get("mode")),
                   witness=problems[:4], case={"game": games.enc_game(gd)})
    if idx % 89 == 0 and an.n <= 8 and outs[True].status == "ok":
        res["sample"] = {"class": cls, "game": games.to_solver(gd), "prune": True, "reported_rewards": outs[True].result[2],
                         "reported_reach_strategies": outs[True].result[1]}
    return res


def plan(tier, seed):
    from . import threads_common
    return threads_common.plan_threads(tier) + _plan_base(tier, seed)


def run_batch(batch):
    if batch["cls"] == "THREADS":
        from . import threads_common
        yield from threads_common.run(batch, PID, ["rewards"], EMIT_START, 'solve', None)
        return
    monitors.install()
    monitors.MON.flags.update(alias=False, prune=False)
    if batch["cls"].startswith("B-"):
        yield from boards_common.run_boards(batch, PID, EMIT_START)
        return
    for idx, gd in sc.iter_games(batch, PID, EMIT_START):
        if gd is None:
            yield sc.skipped(idx, "generator gave up")
            continue
        yield decide(gd, idx, batch["cls"], via_run_games=(idx % 10 == 0))


def replay(case):
    if "threads" in case:
        from . import threads_common
        return threads_common.replay(case, PID, ["rewards"], 'solve', None)
    monitors.install()
    monitors.MON.flags.update(alias=False, prune=False)
    if "game" in case and isinstance(case["game"], dict):
        return decide(games.dec_game(case["game"]), 0, "REPLAY", True)
    return boards_common.replay_board(case, PID)


if __name__ == "__main__":
    sys.exit(harness.main(sys.modules[__name__]))
