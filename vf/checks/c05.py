"""C05 - final strategies are reward-optimal among reachability-optimal actions (DESIGN 4/C05)."""
import sys
from .. import harness, monitors, games, analysis
from ..oracle import OracleInconclusive, P1, P2, PR
from . import solver_common as sc, boards_common

PID = "C05"
LEVEL = "exploration"
NEEDS_DEPS = True
RULE = ("(a) inclusion final <= reachability strategy at every Player-1 state of every solved game (all classes incl. non-stopping G-EC, "
        "boards and committed inputs); (b) exact reward-optimal sets at states reachable from state 0 in the conditioned game, for "
        "stopping games with absorbing finals: G-LEX (most rewarding action not reachability-optimal), G-ACY with dense reward ties, "
        "G-CYC, G-DEAD, G-TIE; conditioned rewards solved exactly.  Non-trivial: some checked Player-1 state had an original action "
        "removed by conditioning (lex state), or a reward tie, or a Player-2 state was checked; distinct = game hash x mode.")
RULE += (' Also (rounds 5-6): G-GAP/G-GAPLOOP (values 1e-9..1e-4 apart around the 6-digit resolution), G-CORR, G-BIGR, G-DIGIT (digit-only / ambiguous action names), G-RETRY (cycles through state 0), G-FINREP (final states listed repeatedly, as list or tuple); a seventh of the solves pass the pruning flag as the int 1/0; an eighth of the batches each run with the root logger at DEBUG, under python -O, and with warnings raised on behalf of the repository turned into errors. THREADS class: the real code called from 3-4 threads of one interpreter (1 us switch interval, yield injection at every ~1000-3000th executed line), each concurrent outcome compared with the sequential outcome of the same process.')
FLOOR = 300
REQUIRED = ["solve.ok"]
ASSUMPTIONS = ["exact sets: acyclic games with arbitrary ties; cyclic stopping games only where competing successor rewards are both exactly 0 or "
               "separated by more than 2*delta*T+2e-6 (the property's own scope)",
               "the conditioned game is rebuilt from the reported reachability strategies, so a C04 tie split does not cascade"]
TIMEOUT = 1800
TABLE = [("G-LEX", 600), ("G-ACYT", 600), ("G-ACY", 300), ("G-CYC", 500), ("G-DEAD", 400), ("G-TIE", 200), ("G-EC", 200), ("G-SLOW", 80), ("G-ACYNF", 300), ("G-CYCNF", 200), ("G-TINYB", 200), ("G-INIT0NF", 100), ("G-RNEAR", 300), ("G-AUXFAST", 60), ("G-DUPL", 200), ("G-MIX", 500), ("G-SMALLX", 200), ("G-VSLOW", 4), ("G-GAP", 300), ("G-BIGR", 300), ("G-CORR", 100), ("G-DIGIT", 200), ("G-RETRY", 200), ("G-FINREP", 150)]


def _plan_base(tier, seed):
    return sc.plan_classes(tier, TABLE) + boards_common.plan_boards(tier)


def decide(gd, idx, cls):
    an = analysis.Analysis(gd)
    res = {"idx": idx, "verdict": "held", "stats": {}, "tags": [cls], "key": games.canon_key(gd), "nontrivial": False}
    try:
        exact_scope = an.stopping and an.finals_absorbing
        outs = sc.solve_both(gd, an)
    except OracleInconclusive as e:
        res.update(verdict="inconclusive", what="oracle: " + str(e))
        return res
    problems = []
    checked = False
    for prune, out in outs.items():
        if out.status != "ok":
            continue
        checked = True
        mode = "prune" if prune else "no-prune"
        pr, k = analysis.check_final_inclusion(gd, out.result)
        res["stats"]["inclusion_checks"] = res["stats"].get("inclusion_checks", 0) + k
        problems += [dict(p, mode=mode) for p in pr]
        if exact_scope:
            try:
                cond = analysis.Conditioned(gd, out.result, prune)
                if not cond.stopping:
                    res["stats"]["conditioned_not_stopping"] = res["stats"].get("conditioned_not_stopping", 0) + 1
                    continue
                pr, st = analysis.check_final_sets(gd, out.result, prune, cond, acyclic=not an.cyclic)
            except OracleInconclusive:
                res["stats"]["oracle_inconclusive"] = res["stats"].get("oracle_inconclusive", 0) + 1
                continue
            problems += [dict(p, mode=mode) for p in pr]
            for kk, v in st.items():
                res["stats"]["exact_" + kk] = res["stats"].get("exact_" + kk, 0) + v
            if st["lex_states"] or st["tie_states"] or st["p2_checked"]:
                res["nontrivial"] = True
    if idx % 3 == 0 and outs[True].status == "ok" and outs[False].status == "ok" and max(outs[True].result[5], outs[False].result[5]) < 20000:
        # one game object, pruned then unpruned (the public prune_states attribute switched in between)
        tad = monitors.mods()["tad"]
        desc = games.to_solver(gd)
        sg = tad.StochasticGame(desc["rewards"], desc["players"], desc["transition_list"], desc["final_states"], prune_states=True)
        lim = sc.limit_for(an)
        for prune in (True, False):
            o = monitors.observed_solve(desc, prune, lim, sg=sg)
            res["stats"]["same_object_solves"] = res["stats"].get("same_object_solves", 0) + 1
            if o.status == "ok" and o.result[0] != outs[prune].result[0]:
                problems.append({"mode": "same-object prune=%s" % prune, "state": None, "problem": "final strategies differ when the same game object is solved again in the other mode",
                                 "got": o.result[0], "expected": outs[prune].result[0]})
    if not checked:
        return sc.skipped(idx, "no result")
    if problems:
        p = problems[0]
        res.update(verdict="violated", what="%s (state %s, %s): got %s expected %s" % (p["problem"], p.get("state"), p["mode"], p.get("got", p.get("final")), p.get("expected", p.get("reach"))),
                   witness=problems[:4], case={"game": games.enc_game(gd)})
    if idx % 79 == 0 and an.n <= 9 and outs[True].status == "ok":
        res["sample"] = {"class": cls, "game": games.to_solver(gd), "final": outs[True].result[0], "reach": outs[True].result[1]}
    return res


def _gen(batch, idx):
    rng = games.case_rng(batch["seed"], PID, batch["cls"], idx)
    if batch["cls"] == "G-ACYT":       # dense reward ties: tiny integer rewards
        return games.gen_acy(rng, nmax=12, rmax=2)
    return games.gen_class(rng, batch["cls"])


def plan(tier, seed):
    from . import threads_common
    return threads_common.plan_threads(tier) + _plan_base(tier, seed)


def run_batch(batch):
    if batch["cls"] == "THREADS":
        from . import threads_common
        yield from threads_common.run(batch, PID, ["final_strategies"], EMIT_START, 'solve', None)
        return
    monitors.install()
    monitors.MON.flags.update(alias=False, prune=False)
    if batch["cls"].startswith("B-"):
        yield from boards_common.run_boards(batch, PID, EMIT_START)
        return
    for idx in range(batch["start"], batch["start"] + batch["count"]):
        EMIT_START(idx)
        gd = _gen(batch, idx)
        if gd is None:
            yield sc.skipped(idx, "generator gave up")
            continue
        yield decide(gd, idx, batch["cls"])


def replay(case):
    if "threads" in case:
        from . import threads_common
        return threads_common.replay(case, PID, ["final_strategies"], 'solve', None)
    monitors.install()
    if "game" in case and isinstance(case["game"], dict):
        return decide(games.dec_game(case["game"]), 0, "REPLAY")
    return boards_common.replay_board(case, PID)


if __name__ == "__main__":
    sys.exit(harness.main(sys.modules[__name__]))
