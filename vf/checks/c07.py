"""C07 - backward search returns exactly the states that can reach a final state (DESIGN 4/C07).

Deciding oracle: monitor M-REV (independent iterative backward BFS) on every call of the real
reverse_dfs / reverse_transition_list, direct calls and calls made from inside StochasticGame.solve().
"""
import hashlib
import random
import sys
from .. import bootstrap, harness, monitors, games

PID = "C07"
LEVEL = "exploration"
RULE = ("random digraphs as transition lists (n=1..60: self-loops, parallel edges, empty rows, unreachable parts, "
        "diamonds/joins), deep chains/combs/ladders/rings up to 2*10^4 states, HUGE graphs past the round sizes 2^16/10^5/2^20/10^6 (/2^21 thorough): "
        "chains of 1.05e6 (2.2e6) states, stars of 1.2e6, complete digraphs with 2.56e6 (4.4e6) transitions, a state with 1.1e6 parallel transitions; transition lists of tall and wide "
        "generated boards, and every call made by solve() on generated games; finals in any order with repetitions. "
        "A case is non-trivial when the graph has a self-loop on a non-final state, a parallel edge, or a state that reaches "
        "the finals through two different predecessors-paths (join); distinct = distinct (edges, finals) hash.")
RULE += (' HUGE graphs (1.05e6-state chains, 1.2e6-state stars, complete digraphs with 2.56e6 transitions), int-subclass state numbers. THREADS class: the real code called from 3-4 threads of one interpreter (1 us switch interval, yield injection at every ~1000-3000th executed line), each concurrent outcome compared with the sequential outcome of the same process.')
FLOOR = 500
REQUIRED = ["rev.dfs_calls", "rev.tl_calls"]
ASSUMPTIONS = ["final sets are non-empty and within range (the property's quantifier)",
               "held on the executions listed, nothing is proved for graphs not generated"]
TIMEOUT = 1500

_depth = {"cur": 0, "max": 0}


def _install_depth_meter(mod):
    mon = sys.monitoring
    tool = 4
    try:
        mon.use_tool_id(tool, "verif-depth")
    except ValueError:
        return
    ev = mon.events

    def start(code, off):
        _depth["cur"] += 1
        if _depth["cur"] > _depth["max"]:
            _depth["max"] = _depth["cur"]

    def ret(code, off, val):
        _depth["cur"] -= 1

    def unwind(code, off, exc):
        _depth["cur"] -= 1

    mon.register_callback(tool, ev.PY_START, start)
    mon.register_callback(tool, ev.PY_RETURN, ret)
    for co in monitors._code_objects(mod):
        mon.set_local_events(tool, co, ev.PY_START | ev.PY_RETURN)


class StateNo(int):
    """a state number of a user-defined int type (what enum.IntEnum members are)"""
    def __repr__(self):
        return "StateNo(%d)" % int(self)


def gen_random_graph(rng):
    n = rng.choice([1, 2, 3, 4, 5, 6, 8, 10, 15, 25, 40, 60])
    style = rng.choice(["sparse", "dense", "diamond", "scc", "forest"])
    tl = []
    for u in range(n):
        if style == "sparse":
            k = rng.choice([0, 1, 1, 2])
        elif style == "dense":
            k = rng.randint(0, min(6, n + 1))
        else:
            k = rng.choice([0, 1, 2, 2, 3])
        row = []
        for _ in range(k):
            r = rng.random()
            if r < 0.12:
                v = u
            elif r < 0.22 and row:
                v = row[-1][1]                     # parallel edge
            elif style == "forest":
                v = rng.randrange(0, u + 1)
            else:
                v = rng.randrange(0, n)
            lab = rng.choice(["a", "b", 0.5, 1, 0.25, "", 0, 0.0, "0"])
            row.append((lab, v))
        tl.append(row)
    if style == "diamond" and n >= 4:
        # u->a->v, u->v  and b->a->v, b->v
        a, v, u, b = rng.sample(range(n), 4)
        tl[u] += [("x", a), ("y", v)]
        tl[a] += [("x", v)]
        tl[b] += [("x", a), ("y", v)]
    if rng.random() < 0.15:
        # state numbers that are ints without being exactly `int`: bools in two-state graphs, an IntEnum-like subclass elsewhere
        if n == 2:
            tl = [[(lab, bool(v)) for lab, v in row] for row in tl]
        else:
            tl = [[(lab, StateNo(v)) for lab, v in row] for row in tl]
    kf = rng.choice([1, 1, 2, 3]) if n > 1 else 1
    finals = [rng.randrange(0, n) for _ in range(kf)]
    if rng.random() < 0.3:
        finals = finals + [rng.choice(finals)]       # repetition
    rng.shuffle(finals)
    return tl, finals


def gen_deep(kind, n):
    if kind == "chain":            # 0 -> 1 -> ... -> n-1 (final)
        tl = [[(1, i + 1)] for i in range(n - 1)] + [[(1, n - 1)]]
        return tl, [n - 1]
    if kind == "rchain":           # n-1 -> ... -> 0 (final): search walks up the numbering
        tl = [[(1, 0)]] + [[(1, i - 1)] for i in range(1, n)]
        return tl, [0]
    if kind == "comb":             # spine with a tooth at every state, teeth point into the spine
        m = n // 2
        tl = [[(1, min(i + 1, m - 1))] for i in range(m)] + [[(1, i)] for i in range(m)]
        return tl, [m - 1]
    if kind == "ladder":           # two rails, rungs both ways: every state has two predecessors
        m = n // 2
        tl = []
        for i in range(m):
            tl.append([("d", min(i + 1, m - 1)), ("x", m + i)])
        for i in range(m):
            tl.append([("d", m + min(i + 1, m - 1)), ("x", i)])
        return tl, [m - 1, 2 * m - 1]
    if kind == "ring":
        tl = [[(0.5, (i + 1) % n), (0.5, i)] for i in range(n)]
        return tl, [0]
    if kind == "star":             # every state moves straight to the final state: the whole graph is pending at once
        tl = [[(1, 0)] for _ in range(n)]
        return tl, [0]
    if kind == "fan":              # one state with n parallel transitions into the final state (n entries for it in the reversed table)
        tl = [[(1, 0)], [("a", 0)] * n, [(1, 1)]]
        return tl, [0]
    if kind == "dense":            # complete digraph: n*n transitions, every state is queued once per transition into the found part
        row = [("a", v) for v in range(n)]
        tl = [list(row) for _ in range(n)]
        return tl, [n - 1]
    raise KeyError(kind)


def board_tl(length, width, variant, seed):
    """Transition list of a real generated board game, obtained the way a user gets it (file round trip)."""
    import os
    import tempfile
    rg = monitors.mods()["roberta_generator"]
    cr = monitors.mods()["conditionalrewards"]
    moves, rewards, loose = rg.gen_rnd_board(seed, length, width, 0.3, 6, seed % 2 == 1)
    with tempfile.TemporaryDirectory(prefix="verif-c07-") as d:
        path = os.path.join(d, "board.py")
        rg.write_robots(file_name=path, length=length, width=width, moves=moves, rewards=rewards, loose_tiles=loose,
                         prob_tile_break=0.1, prob_robot_break=0.1, prob_light_break=0.1)
        game = cr.read_dict_from_file(path)["game_" + variant]
    return game["transition_list"], game["final_states"]


DEEP = [("chain", 100), ("chain", 1000), ("chain", 5000), ("rchain", 1000), ("rchain", 5000), ("comb", 2000),
        ("ladder", 1000), ("ladder", 4000), ("ring", 1500), ("comb", 10000)]
DEEP_T = DEEP + [("chain", 20000), ("rchain", 20000), ("ladder", 20000), ("ring", 20000)]
# sizes beyond the round numbers at which size-dependent code paths (progress reports, backlog compaction, chunking) would start:
# 2^16, 10^5, 2^20, 10^6 (quick) and 2^21 (thorough)
HUGE = [("chain", 70000), ("chain", 1050000), ("star", 1200000), ("dense", 1600), ("rchain", 140000)]
HUGE_T = HUGE + [("chain", 2200000), ("star", 2200000), ("fan", 1100000), ("ladder", 1100000), ("dense", 2100), ("ring", 1050000), ("comb", 2100000)]
BOARDS = [(200, 3, "a"), (200, 3, "c"), (400, 1, "b"), (1, 200, "a"), (1, 200, "c"), (60, 5, "b")]


def _plan_base(tier, seed):
    q = tier == "quick"
    b = harness.split("RND", 3000 if q else 50000, 250 if q else 2000)
    deep = DEEP if q else DEEP_T
    b += [{"cls": "DEEP", "start": i, "count": 1} for i in range(len(deep))]
    # the long ones first; each with its own short wall-clock watchdog (an unchanged tree needs <= 10 s per graph): a search that is
    # quadratic or worse in the graph size must not hold up the verdicts of the other classes (its batch is then inconclusive)
    b = [{"cls": "HUGE", "start": i, "count": 1, "timeout": 150} for i in range(len(HUGE if q else HUGE_T))] + b
    b += [{"cls": "BOARD", "start": i, "count": 1} for i in range(len(BOARDS) if not q else 4)]
    b += harness.split("SOLVE", 400 if q else 6000, 100 if q else 500)
    return b


def _features(tl, finals):
    n = len(tl)
    fs = set(finals)
    selfloop = any(v == u and u not in fs for u, row in enumerate(tl) for _, v in row)
    parallel = any(len({v for _, v in row}) < len(row) for row in tl)
    indeg = [0] * n
    for u, row in enumerate(tl):
        for v in {v for _, v in row}:
            if v != u:
                indeg[v] += 1
    exp, _ = monitors._ref_back_reach(tl, finals)
    reach = set(exp) | fs
    join = any(indeg[v] >= 2 for v in reach)
    unreach = len(reach) < n
    return {"selfloop": selfloop, "parallel": parallel, "join": join, "unreachable_part": unreach, "reaching": len(exp)}


def _decide(tl, finals, idx, cls, literal=True):
    rd = monitors.mods()["reverse_dfs"]
    MON = monitors.MON
    MON.drain("rev")
    _depth["cur"] = 0
    n = len(tl)
    raised = None
    try:
        rd.reverse_dfs(tl, finals)
        rd.reverse_transition_list(tl)
    except BaseException as e:      # noqa - RecursionError is the expected kind of failure here
        if isinstance(e, (KeyboardInterrupt, SystemExit)):
            raise
        raised = type(e).__name__
    if raised is None and cls == "RND" and idx % 3 == 0 and n >= 2:
        # the same list object searched again after an in-place edit that keeps the number of states and transitions
        import random as _r
        r2 = _r.Random(idx)
        rows = [i for i, row in enumerate(tl) if row]
        try:
            for _ in range(2):
                if rows:
                    i = r2.choice(rows)
                    j = r2.randrange(len(tl[i]))
                    tl[i][j] = (tl[i][j][0], r2.randrange(n))
                rd.reverse_dfs(tl, finals)
                rd.reverse_transition_list(tl)
        except BaseException as e:      # noqa
            if isinstance(e, (KeyboardInterrupt, SystemExit)):
                raise
            raised = type(e).__name__
    ev = MON.drain("rev")
    f = _features(tl, finals) if n <= 5000 else {"selfloop": False, "parallel": False, "join": True, "unreachable_part": False, "reaching": n}
    h = hashlib.sha1(repr(([[v for _, v in r] for r in tl] if n <= 200 else (cls, idx, n), finals)).encode()).hexdigest()[:16]
    res = {"idx": idx, "verdict": "held", "nontrivial": bool(f["selfloop"] or f["parallel"] or f["join"]), "key": h,
           "stats": {"max_n": n, "max_depth": _depth["max"], "graphs_selfloop": int(f["selfloop"]),
                     "graphs_parallel": int(f["parallel"]), "graphs_join": int(f["join"]),
                     "graphs_unreachable_part": int(f["unreachable_part"]), "calls_direct": 2},
           "tags": [cls]}
    if ev or raised:
        res["verdict"] = "violated"
        res["what"] = (ev[0]["fn"] + ": " + ev[0]["problem"]) if ev else ("raised " + raised)
        res["witness"] = ev[:2]
        res["case"] = {"tl": tl, "finals": finals} if n <= 300 else {"spec": [cls, idx], "n": n}
    if idx % 500 == 0 and n <= 12:
        res["sample"] = {"transition_list": tl, "final_states": finals, "result_ok": not ev}
    return res


def plan(tier, seed):
    from . import threads_common
    return threads_common.plan_threads(tier) + _plan_base(tier, seed)


def run_batch(batch):
    if batch["cls"] == "THREADS":
        from . import threads_common
        yield from threads_common.run(batch, PID, None, EMIT_START, 'graphs', None)
        return
    monitors.install()
    monitors.MON.flags.update(alias=False, prune=False)
    _install_depth_meter(monitors.mods()["reverse_dfs"])
    cls, seed, tier = batch["cls"], batch["seed"], batch["tier"]
    for idx in range(batch["start"], batch["start"] + batch["count"]):
        EMIT_START(idx)
        if cls == "RND":
            rng = games.case_rng(seed, PID, cls, idx)
            tl, finals = gen_random_graph(rng)
            yield _decide(tl, finals, idx, cls)
        elif cls == "DEEP":
            kind, n = (DEEP if tier == "quick" else DEEP_T)[idx]
            tl, finals = gen_deep(kind, n)
            r = _decide(tl, finals, idx, cls)
            r["case"] = {"deep": [kind, n]} if r["verdict"] == "violated" else None
            r["tags"].append("deep:%s:%d" % (kind, n))
            yield r
        elif cls == "HUGE":
            kind, n = (HUGE if tier == "quick" else HUGE_T)[idx]
            tl, finals = gen_deep(kind, n)
            r = _decide(tl, finals, idx, cls)
            r["case"] = {"deep": [kind, n]} if r["verdict"] == "violated" else None
            r["tags"].append("huge:%s:%d" % (kind, n))
            r["stats"]["max_transitions"] = sum(len(row) for row in tl)
            del tl
            yield r
        elif cls == "BOARD":
            length, width, var = BOARDS[idx]
            tl, finals = board_tl(length, width, var, seed + idx)
            r = _decide(tl, finals, idx, cls)
            r["case"] = {"board": [length, width, var, seed + idx]} if r["verdict"] == "violated" else None
            r["tags"].append("board:%dx%d:%s" % (length, width, var))
            yield r
        elif cls == "SOLVE":
            rng = games.case_rng(seed, PID, cls, idx)
            gcls = ["G-ACY", "G-CYC", "G-EC", "G-DEAD", "G-TIE"][idx % 5]
            gd = games.gen_class(rng, gcls)
            if gd is None:
                yield {"idx": idx, "verdict": "skipped"}
                continue
            monitors.MON.drain("rev")
            before = monitors.MON.counters.get("rev.dfs_calls", 0)
            game = games.to_solver(gd)
            n, m = len(game["players"]), games.n_transitions(gd)
            monitors.observed_solve(game, idx % 2 == 0, limit=monitors.step_limit(n, m, 2000))
            ev = monitors.MON.drain("rev")
            calls = monitors.MON.counters.get("rev.dfs_calls", 0) - before
            r = {"idx": idx, "verdict": "violated" if ev else ("held" if calls else "skipped"),
                 "nontrivial": True, "key": games.canon_key(gd), "stats": {"calls_inside_solve": calls}, "tags": [cls]}
            if ev:
                r["what"] = "inside solve(): " + ev[0]["fn"] + ": " + ev[0]["problem"]
                r["witness"] = ev[:2]
                r["case"] = {"game": games.enc_game(gd), "prune": idx % 2 == 0}
            yield r


def replay(case):
    if "threads" in case:
        from . import threads_common
        return threads_common.replay(case, PID, None, 'graphs', None)
    monitors.install()
    monitors.MON.flags.update(alias=False, prune=False)
    if "tl" in case:
        tl = [[tuple(t) for t in row] for row in case["tl"]]
        return _decide(tl, case["finals"], 0, "REPLAY")
    if "deep" in case:
        tl, finals = gen_deep(*case["deep"])
        return _decide(tl, finals, 0, "REPLAY")
    if "board" in case:
        tl, finals = board_tl(*case["board"])
        return _decide(tl, finals, 0, "REPLAY")
    if "game" in case:
        gd = games.dec_game(case["game"])
        monitors.MON.drain("rev")
        monitors.observed_solve(games.to_solver(gd), case["prune"], limit=10 ** 8)
        ev = monitors.MON.drain("rev")
        return {"verdict": "violated" if ev else "held", "what": ev[0]["problem"] if ev else None, "case": case}
    return {"verdict": "inconclusive", "what": "unknown replay case"}


def on_crash(c):
    # only a death of the interpreter itself (signal / fatal error) while the real search was running counts;
    # an ordinary traceback is a harness problem and stays inconclusive
    fatal = (c["returncode"] is not None and c["returncode"] < 0) or "Fatal Python error" in c["stderr"]
    if c["batch"].get("cls") in ("DEEP", "BOARD", "HUGE") and not c["killed"] and fatal and c["inflight"] is not None:
        return {"idx": c["inflight"], "cls": c["batch"]["cls"], "verdict": "violated",
                "what": "interpreter died during a deep backward search: " + c["why"],
                "case": {"spec": [c["batch"]["cls"], c["inflight"]]}, "witness": c["stderr"][-800:]}
    return None


if __name__ == "__main__":
    sys.exit(harness.main(sys.modules[__name__]))
