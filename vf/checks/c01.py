"""C01 - reported reachability probabilities are the max-min game values (DESIGN 4/C01)."""
import sys
from .. import harness, monitors, games, analysis, oracle
from ..oracle import OracleInconclusive, P1, P2, PR

PID = "C01"
LEVEL = "exploration"
NEEDS_DEPS = True
RULE = ("generated games of classes G-ACY/G-ACYNF (non-absorbing finals)/G-CYC/G-SLOW/G-EC/G-TIE/G-TIEC/G-DEAD/G-TINY/G-LEX "
        "(3-25 states, exact Fraction oracle with certificate) solved by the real StochasticGame.solve() with pruning on and off, "
        "by tad.Solver at thresholds 1e-2/1e-4/1e-9 and through run_games; generated boards and committed inputs with the "
        "float-certified oracle.  Non-trivial: some state has a value strictly between 0 and 1 and the game has a cycle, an end "
        "component, a real Player-2 choice or several finals; distinct = distinct game description hash.")
RULE += (' Also (rounds 5-6): G-GAP/G-GAPLOOP (values 1e-9..1e-4 apart around the 6-digit resolution), G-CORR, G-BIGR, G-DIGIT (digit-only / ambiguous action names), G-RETRY (cycles through state 0), G-FINREP (final states listed repeatedly, as list or tuple); a seventh of the solves pass the pruning flag as the int 1/0; an eighth of the batches each run with the root logger at DEBUG, under python -O, and with warnings raised on behalf of the repository turned into errors. THREADS class: the real code called from 3-4 threads of one interpreter (1 us switch interval, yield injection at every ~1000-3000th executed line), each concurrent outcome compared with the sequential outcome of the same process.')
FLOOR = 300
REQUIRED = ["solve.ok", "step.vi_reach_calls"]
ASSUMPTIONS = ["band: -eps <= v*-x <= threshold*T + eps, T = exact max expected steps (stopping games) or the expected steps of the chain "
               "(sigma*, Player 2 greedy w.r.t. the reported vector); eps = 1e-9*max(1,|v|) absorbs float(q) input rounding",
               "games whose tolerance chain is not transient contribute only the 0/1/upper-bound/pruning-equality clauses"]
TIMEOUT = 1800

CLASSES_Q = [("G-ACY", 700), ("G-ACYNF", 200), ("G-CYC", 700), ("G-CYCNF", 150), ("G-SLOW", 250), ("G-EC", 500),
             ("G-TIE", 250), ("G-TIEC", 250), ("G-DEAD", 500), ("G-TINY", 150), ("G-LEX", 250), ("G-TINYB", 200), ("G-INIT0F", 100), ("G-INIT0NF", 100), ("G-NOREACH", 100), ("G-NEARC", 100), ("G-MIX", 500), ("G-SMALLX", 500), ("G-VSLOWR", 2), ("G-LATE", 200), ("G-HALF", 60), ("G-EMPTY", 200), ("G-GAP", 600), ("G-GAPLOOP", 60), ("G-CORR", 100), ("G-RETRY", 150), ("G-FINREP", 300)]
THRESHOLDS = [1e-2, 1e-4, 1e-9]


def _plan_base(tier, seed):
    mult = 1 if tier == "quick" else 14
    b = []
    for cls, k in CLASSES_Q:
        b += harness.split(cls, k * mult, 50 if tier == "quick" else 200)
    if tier == "thorough":
        # complete enumeration of the one- and two-state games (exhaustive for that sub-space)
        b += harness.split("G-SMALLALL", games.small_game_count(), 600)
    from . import boards_common
    b += boards_common.plan_boards(tier)
    return b


def _features(an):
    g = an.g
    v = an.reach["v"]
    frac = any(0 < x < 1 for x in v)
    p2choice = any(g.players[s] == P2 and len({v[t] for _, t in g.tl[s]}) > 1 for s in range(g.n))
    return {"fractional": frac, "cyclic": an.cyclic, "nonstopping": not an.stopping, "p2choice": p2choice,
            "multifinal": len(g.finals) > 1, "nonabs_final": not an.finals_absorbing}


def decide(gd, idx, cls, do_thresholds=True, do_run_games=False):
    mods = monitors.mods()
    tad = mods["tad"]
    an = analysis.Analysis(gd)
    n, m = an.n, games.n_transitions(gd)
    res = {"idx": idx, "verdict": "held", "stats": {}, "tags": [cls], "key": games.canon_key(gd)}
    try:
        an.reach
        tmax = max(an.tmax) if an.stopping else None
    except OracleInconclusive as e:
        res.update(verdict="inconclusive", what="oracle: " + str(e))
        return res
    from . import solver_common as sc
    limit = sc.limit_for(an)
    f = _features(an)
    res["nontrivial"] = f["fractional"] and (f["cyclic"] or f["nonstopping"] or f["p2choice"] or f["multifinal"])
    for k, v in f.items():
        res["stats"]["games_" + k] = int(v)
    out_n = monitors.observed_solve(games.to_solver(gd), False, limit)
    out_p = monitors.observed_solve(games.to_solver(gd), True, limit)
    res["stats"]["max_steps"] = max(out_n.steps, out_p.steps)
    problems = []
    if out_n.status != "ok":
        # outside the stopping games the reward iteration may never end; the reachability phase is still observable on its own
        xr = None
        if out_n.status == "budget" and (out_n.diag or {}).get("phase") == "total_rewards":
            try:
                game = games.to_solver(gd)
                sg = tad.StochasticGame(**game)
                sg.check_game()
                solver = tad.Solver(threshold=1e-6, state_list=sg.init_states())
                with monitors.budget(limit):
                    solver.solve_reachability(game["transition_list"], game["final_states"], False)
                xr = [s_.reach_probability for s_ in solver.state_list]
            except monitors.StepBudgetExceeded:
                xr = None
            finally:
                monitors.MON.metering = False
        if xr is None:
            res.update(verdict="inconclusive", what="unpruned solve gave no result: %s" % out_n.brief())
            return res
        res["stats"]["reach_phase_only"] = 1
        pr, st = analysis.check_probabilities(an, xr)
        res["stats"]["states_compared"] = st["states"]
        res["stats"]["max_err_over_band"] = st["max_err_over_band"]
        if pr:
            res.update(verdict="violated", what="%s (state %s, reachability phase)" % (pr[0]["problem"], pr[0].get("state")), witness=pr[:4],
                       case={"game": games.enc_game(gd)})
        return res
    x = out_n.result[3]
    res["stats"]["max_iterations_reach"] = out_n.result[4]
    pr, st = analysis.check_probabilities(an, x)
    problems += [dict(p, mode="no-prune") for p in pr]
    res["stats"]["states_compared"] = st["states"]
    res["stats"]["max_err_over_band"] = st["max_err_over_band"]
    res["stats"]["max_T"] = st["max_T"]
    res["stats"]["tol_inconclusive_states"] = st["tol_inconclusive"]
    if out_p.status == "ok":
        if out_p.result[3] != x:
            problems.append({"problem": "probabilities differ between pruning on and off",
                             "prune": out_p.result[3], "no_prune": x})
        res["stats"]["pruned_solves_compared"] = 1
    elif out_p.status == "nosol":
        res["stats"]["pruned_nosol"] = 1
    else:
        res["stats"]["pruned_no_result"] = 1
    slow_game = out_n.result[4] > 20000 or out_n.result[5] > 20000
    if slow_game:
        do_thresholds = do_run_games = False          # tens of thousands of sweeps per solve: the two plain solves are enough here
    # the same StochasticGame object solved in both modes, in either order, must report the same probabilities
    if out_p.status in ("ok", "nosol") and not slow_game:
        desc = games.to_solver(gd)
        order = (True, False) if idx % 2 == 0 else (False, True)
        sg = tad.StochasticGame(desc["rewards"], desc["players"], desc["transition_list"], desc["final_states"], prune_states=order[0])
        for k, prune in enumerate(order):
            o = monitors.observed_solve(desc, prune, limit, sg=sg)
            res["stats"]["same_object_solves"] = res["stats"].get("same_object_solves", 0) + 1
            if o.status == "ok" and o.result[3] != x:
                problems.append({"problem": "probabilities differ when the same game object is solved again (solve #%d, prune=%s)" % (k + 1, prune),
                                 "mode": "same-object", "got": o.result[3], "first": x})
            elif o.status not in ("ok", "nosol", "budget"):
                problems.append({"problem": "second solve through the same object failed: %s %s" % (o.exc, o.msg), "mode": "same-object"})
    if do_thresholds:
        for t in THRESHOLDS:
            try:
                game = games.to_solver(gd)
                sg = tad.StochasticGame(**game)
                sg.check_game()
                solver = tad.Solver(threshold=t, state_list=sg.init_states())
                lim = limit if t >= 1e-6 else limit * 3
                with monitors.budget(lim):
                    solver.solve_reachability(game["transition_list"], game["final_states"], False)
                xt = [s.reach_probability for s in solver.state_list]
            except monitors.StepBudgetExceeded:
                res["stats"]["threshold_budget_overruns"] = res["stats"].get("threshold_budget_overruns", 0) + 1
                continue
            finally:
                monitors.MON.metering = False
            pr, st = analysis.check_probabilities(an, xt, threshold=t)
            problems += [dict(p, mode="Solver(threshold=%g)" % t) for p in pr]
            res["stats"]["threshold_runs"] = res["stats"].get("threshold_runs", 0) + 1
            res["stats"]["max_err_over_band_thr"] = max(res["stats"].get("max_err_over_band_thr", 0.0), st["max_err_over_band"])
    if do_run_games:
        cr = mods["conditionalrewards"]
        rr = None
        if out_p.status in ("ok", "nosol"):
            with monitors.budget(limit * 3):
                try:
                    batch = {"g": games.to_solver(gd)}
                    if (idx // 10) % 2:
                        # the game is the second one of the file, behind a small solvable game
                        lead = {"rewards": [1, 0, 0], "players": [PR, PR, PR], "transition_list": [[(0.25, 1), (0.75, 2)], [(1, 1)], [(1, 2)]], "final_states": [1]}
                        batch = {"lead": lead, "g": batch["g"]}
                        res["stats"]["run_games_second_in_file"] = 1
                    rr = cr.run_games(batch)
                except monitors.StepBudgetExceeded:
                    res["stats"]["run_games_budget_overruns"] = 1
                finally:
                    monitors.MON.metering = False
        if rr is not None:
            res["stats"]["run_games_compared"] = 1
            if rr["g"]["msg"] == "Game solved":
                if rr["g_no_prune"]["probabilities"] != x:
                    problems.append({"problem": "run_games reports different probabilities than solve()", "mode": "run_games",
                                     "got": rr["g_no_prune"]["probabilities"], "solve": x})
                if rr["g"]["probabilities"] != x:
                    problems.append({"problem": "run_games (pruned) reports different probabilities than solve()", "mode": "run_games",
                                     "got": rr["g"]["probabilities"], "solve": x})
            else:
                # not solved: whatever probability vector the two entries carry nevertheless must be this game's
                for key in ("g", "g_no_prune"):
                    if rr[key]["probabilities"] is not None and rr[key]["probabilities"] != x:
                        problems.append({"problem": "run_games reports, for a game it did not solve, probabilities that are not this game's values",
                                         "mode": "run_games", "entry": key, "got": rr[key]["probabilities"], "solve": x})
    if problems:
        res.update(verdict="violated", what="%s (state %s, %s)" % (problems[0]["problem"], problems[0].get("state"), problems[0].get("mode")),
                   witness=problems[:4], case={"game": games.enc_game(gd)})
    if idx % 97 == 0 and n <= 8:
        res["sample"] = {"class": cls, "game": games.to_solver(gd), "reported": x, "exact": [str(v) for v in an.reach["v"]]}
    return res


def plan(tier, seed):
    from . import threads_common
    return threads_common.plan_threads(tier) + _plan_base(tier, seed)


def run_batch(batch):
    if batch["cls"] == "THREADS":
        from . import threads_common
        yield from threads_common.run(batch, PID, ["probabilities"], EMIT_START, 'solve', None)
        return
    monitors.install()
    monitors.MON.flags.update(alias=False, prune=False)
    cls, seed = batch["cls"], batch["seed"]
    if cls.startswith("B-"):
        from . import boards_common
        yield from boards_common.run_boards(batch, PID, EMIT_START)
        return
    for idx in range(batch["start"], batch["start"] + batch["count"]):
        EMIT_START(idx)
        rng = games.case_rng(seed, PID, cls, idx)
        gd = games.small_game(idx) if cls == "G-SMALLALL" else games.gen_class(rng, cls)
        if gd is None:
            yield {"idx": idx, "verdict": "skipped", "what": "generator gave up"}
            continue
        yield decide(gd, idx, cls, do_thresholds=(idx % 3 == 0), do_run_games=(idx % 10 == 0))


def replay(case):
    if "threads" in case:
        from . import threads_common
        return threads_common.replay(case, PID, ["probabilities"], 'solve', None)
    monitors.install()
    monitors.MON.flags.update(alias=False, prune=False)
    if "game" in case:
        return decide(games.dec_game(case["game"]), 0, "REPLAY", True, True)
    from . import boards_common
    return boards_common.replay_board(case, PID)


if __name__ == "__main__":
    sys.exit(harness.main(sys.modules[__name__]))
