"""C09 - malformed games are rejected with ValueError, never solved (DESIGN 4/C09)."""
import copy
import sys
from .. import harness, monitors, games
from ..oracle import P1, P2, PR
from . import solver_common as sc

PID = "C09"
LEVEL = "exploration"
RULE = ("base games (G-ACY/G-CYC, 3-10 states) x EVERY applicable (rule, position) pair: list lengths off by one (6 ways), reward -1 / "
        "-1e-300 at each state, unknown owner ('player 1', '', None) at each state, final index n / n+3 / -1 / -n at each slot, no final, "
        "successor n / -1 / n+7 in each transition, transitions [] / None at each state, container tuple / dict / int / deque / UserList / iterator at each state, "
        "transition as list / 1-tuple / 3-tuple at each position, non-string action (1, None, 0.5), non-numeric probability ('0.5', None), "
        "successor 1.0 / '1' / None; each solved in both pruning modes by the real solve(), a sample through run_games alone and between "
        "solvable games.  Non-trivial: every case (each is one malformed description); distinct = (base game hash, rule, position).")
FLOOR = 100
REQUIRED = ["c09.solves"]
ASSUMPTIONS = ["values whose malformedness is arguable (True as an index, nan rewards, a description that is not made of lists at all) are not generated"]
TIMEOUT = 1800


def edits(game):
    """yield (rule, posclass, mutated description). game: solver-style dict."""
    n = len(game["players"])

    def mk():
        return copy.deepcopy(game)

    def posclass(i, k):
        return "first" if i == 0 else ("last" if i == k - 1 else "middle")

    for field in ("rewards", "players", "transition_list"):
        g = mk(); g[field] = g[field][:-1]; yield "len:%s-1" % field, "whole", g
        g = mk(); g[field] = g[field] + [copy.deepcopy(g[field][-1])]; yield "len:%s+1" % field, "whole", g
    for s in range(n):
        pc = posclass(s, n)
        for val in (-1, -1e-300):
            g = mk(); g["rewards"][s] = val; yield "reward:%r" % val, pc, g
        for val in ("player 1", "", None, ["Player 1"], {}):
            g = mk(); g["players"][s] = val; yield "owner:%r" % (val,), pc, g
        for val, nm in (([], "empty"), (None, "None")):
            g = mk(); g["transition_list"][s] = val; yield "transitions:%s" % nm, pc, g
        tr = game["transition_list"][s]
        g = mk(); g["transition_list"][s] = tuple(tr); yield "container:tuple", pc, g
        g = mk(); g["transition_list"][s] = {i: t for i, t in enumerate(tr)}; yield "container:dict", pc, g
        g = mk(); g["transition_list"][s] = 5; yield "container:int", pc, g
        # sequence types that behave like a list but are not one (the documented rule asks for a list of 2-tuples)
        import collections
        g = mk(); g["transition_list"][s] = collections.deque(tr); yield "container:deque", pc, g
        g = mk(); g["transition_list"][s] = collections.UserList(tr); yield "container:UserList", pc, g
        g = mk(); g["transition_list"][s] = iter(list(tr)); yield "container:iterator", pc, g
        isp = game["players"][s] != PR
        for i, (a, t) in enumerate(tr):
            tp = "t-first" if i == 0 else "t-later"
            for val in (n, -1, n + 7):
                g = mk(); g["transition_list"][s][i] = (a, val); yield "succ:%s" % ("n" if val == n else "-1" if val == -1 else "n+7"), pc + "/" + tp, g
            g = mk(); g["transition_list"][s][i] = [a, t]; yield "transition:list", pc + "/" + tp, g
            g = mk(); g["transition_list"][s][i] = (a,); yield "transition:1-tuple", pc + "/" + tp, g
            g = mk(); g["transition_list"][s][i] = (a, t, t); yield "transition:3-tuple", pc + "/" + tp, g
            for val in (1.0, "1", None):
                g = mk(); g["transition_list"][s][i] = (a, val); yield "succ-type:%r" % (val,), pc + "/" + tp, g
            if isp:
                for val in (1, None, 0.5):
                    g = mk(); g["transition_list"][s][i] = (val, t); yield "action:%r" % (val,), pc + "/" + tp, g
            else:
                for val in ("0.5", None):
                    g = mk(); g["transition_list"][s][i] = (val, t); yield "prob:%r" % (val,), pc + "/" + tp, g
    yield "empty-game", "whole", {"rewards": [], "players": [], "transition_list": [], "final_states": []}
    yield "empty-game", "whole", {"rewards": [], "players": [], "transition_list": [], "final_states": [0]}
    k = len(game["final_states"])
    for j in range(k):
        for val, nm in ((n, "n"), (n + 3, "n+3"), (-1, "-1"), (-n, "-n")):
            if nm == "-n" and n == 1:
                continue
            g = mk(); g["final_states"][j] = val; yield "final:%s" % nm, posclass(j, k), g
    g = mk(); g["final_states"] = []; yield "final:none", "whole", g


def base_game(rng):
    for _ in range(100):
        gd = games.gen_acy(rng, nmax=8) if rng.random() < 0.5 else games.gen_cyc(rng, nmax=8)
        if gd is None:
            continue
        owners = set(gd["players"])
        if len(owners) == 3 and any(len(t) >= 2 for t in gd["transition_list"]):
            return gd
    return games.gen_acy(rng, nmax=8)


def solvable_game():
    return {"rewards": [1, 0, 0], "players": [PR, PR, PR],
            "transition_list": [[(0.5, 1), (0.5, 2)], [(1, 1)], [(1, 2)]], "final_states": [1]}


def decide(gd, idx, cls, sample_run_games):
    tad = monitors.mods()["tad"]
    cr = monitors.mods()["conditionalrewards"]
    MON = monitors.MON
    base = games.to_solver(gd)
    key = games.canon_key(gd)
    problems = []
    stats = {"base_games": 1, "edits": 0, "solves": 0, "run_games_calls": 0}
    tags = {}
    msgs = set()
    j = 0
    for rule, pc, g in edits(base):
        j += 1
        stats["edits"] += 1
        tags["rule:" + rule.split(":")[0] + "@" + pc.split("/")[0]] = tags.get("rule:" + rule.split(":")[0] + "@" + pc.split("/")[0], 0) + 1
        for prune in (True, False):
            gg = copy.deepcopy(g)
            MON.count("c09.solves")
            stats["solves"] += 1
            try:
                with monitors.budget(10 ** 7):
                    r = tad.StochasticGame(gg["rewards"], gg["players"], gg["transition_list"], gg["final_states"], prune_states=prune).solve()
                problems.append({"rule": rule, "pos": pc, "prune": prune, "problem": "malformed game was solved", "result": repr(r)[:200], "game": g})
            except ValueError as e:
                msgs.add(str(e)[:60])
            except BaseException as e:      # noqa
                if isinstance(e, (KeyboardInterrupt, SystemExit)):
                    raise
                problems.append({"rule": rule, "pos": pc, "prune": prune, "problem": "solve raised %s instead of ValueError: %s" % (type(e).__name__, str(e)[:120]), "game": g})
            finally:
                MON.metering = False
        if j % 5 == 0 and g["players"] and len(g["players"]) == len(base["players"]) and all(isinstance(g[k], list) for k in ("rewards", "players", "transition_list", "final_states")):
            # the same StochasticGame object: solve the well-formed game, then the description is edited in place and solved again
            stats["same_object_edits"] = stats.get("same_object_edits", 0) + 1
            good = copy.deepcopy(base)
            try:
                sg = tad.StochasticGame(good["rewards"], good["players"], good["transition_list"], good["final_states"], prune_states=False)
                with monitors.budget(10 ** 7):
                    sg.solve()
                bad = copy.deepcopy(g)
                good["rewards"][:] = bad["rewards"]
                good["players"][:] = bad["players"]
                good["transition_list"][:] = bad["transition_list"]
                good["final_states"][:] = bad["final_states"]
                with monitors.budget(10 ** 7):
                    r = sg.solve()
                problems.append({"rule": rule, "pos": pc, "problem": "a game edited into a malformed one after a first solve was solved again through the same object",
                                 "result": repr(r)[:200], "game": g})
            except ValueError:
                pass
            except BaseException as e:      # noqa
                if isinstance(e, (KeyboardInterrupt, SystemExit)):
                    raise
                problems.append({"rule": rule, "pos": pc, "problem": "second solve of an edited game through the same object raised %s instead of ValueError: %s"
                                 % (type(e).__name__, str(e)[:100]), "game": g})
            finally:
                MON.metering = False
        if sample_run_games and j % 4 == 0:
            stats["run_games_calls"] += 1
            order = j % 3
            d = {}
            if order >= 1:
                d["ok_before"] = solvable_game()
            d["bad"] = copy.deepcopy(g)
            if order == 2 or order == 0:
                d["ok_after"] = solvable_game()
            try:
                with monitors.budget(10 ** 7):
                    rr = cr.run_games(d)
                ok = rr["bad"]["msg"].startswith("Error while solving the game:") and rr["bad_no_prune"]["msg"] == "Game not solved"
                ok = ok and all(rr[k]["msg"] == "Game solved" for k in rr if k.startswith("ok_"))
                ok = ok and rr["bad"]["rewards"] is None and rr["bad"]["final_strategies"] is None
                if not ok:
                    problems.append({"rule": rule, "pos": pc, "problem": "run_games did not record the failure as a message",
                                     "msgs": {k: v["msg"] for k, v in rr.items()}, "game": g})
            except BaseException as e:     # noqa
                if isinstance(e, (KeyboardInterrupt, SystemExit)):
                    raise
                problems.append({"rule": rule, "pos": pc, "problem": "run_games crashed with %s: %s" % (type(e).__name__, str(e)[:120]), "game": g})
            finally:
                MON.metering = False
    res = {"idx": idx, "verdict": "held", "nontrivial": True, "key": key, "stats": stats, "tags": [cls]}
    # one result per base game; the edit matrix is reported through tags via finish()
    res["stats"].update({"t." + k: v for k, v in tags.items()})
    res["stats"]["distinct_messages"] = len(msgs)
    if problems:
        p = problems[0]
        res.update(verdict="violated", what="%s [rule %s at %s]" % (p["problem"], p["rule"], p["pos"]),
                   witness=[{k: v for k, v in q.items() if k != "game"} for q in problems[:6]],
                   case={"game": games.enc_game(gd), "first_bad": repr(p["game"])[:1500]})
    if idx % 50 == 0:
        res["sample"] = {"base_game": base, "edits_applied": stats["edits"], "example_edit": "reward -1 at state 0 -> ValueError"}
    return res


def plan(tier, seed):
    return harness.split("G-MAL", 150 if tier == "quick" else 3000, 10 if tier == "quick" else 100)


def run_batch(batch):
    monitors.install()
    monitors.MON.flags.update(alias=False, prune=False)
    for idx in range(batch["start"], batch["start"] + batch["count"]):
        EMIT_START(idx)
        rng = games.case_rng(batch["seed"], PID, "G-MAL", idx)
        yield decide(base_game(rng), idx, "G-MAL", True)


def finish(agg):
    matrix = {k[2:]: v for k, v in agg.stats.items() if k.startswith("t.")}
    return {"evaluations": int(agg.stats.get("solves", 0)), "distinct_nontrivial": int(agg.stats.get("edits", 0)),
            "rule_position_matrix": matrix, "rules_covered": len({k.split("@")[0] for k in matrix}),
            "evaluations_note": "evaluations = rejected-or-not solves observed (edits x 2 modes); distinct_nontrivial = distinct (base game, rule, position) edits; verdicts are per base game"}


def replay(case):
    monitors.install()
    return decide(games.dec_game(case["game"]), 0, "REPLAY", True)


if __name__ == "__main__":
    sys.exit(harness.main(sys.modules[__name__]))
