"""C13 - results do not depend on how the game is written down (DESIGN 4/C13).

Metamorphic monitor: the real solve() runs on a description g and on transformed descriptions g' = (state permutation fixing 0,
per-state transition shuffles, injective action renaming); the recorded results are compared offline.  The relation needs no
value oracle; the exact oracle only supplies the sound tolerance (delta*T) and the tied/separated scope for strategies."""
import sys
from .. import harness, monitors, games, analysis, oracle
from ..oracle import OracleInconclusive, P1, P2, PR
from . import solver_common as sc, boards_common

PID = "C13"
LEVEL = "exploration"
NEEDS_DEPS = True
RULE = ("every game class (G-ACY/G-CYC/G-SLOW/G-DEAD/G-TIE/G-TIEC/G-LEX/G-TINY stopping games) x per game 4 (quick) / 12 (thorough) random "
        "transforms + 3 fixed hostile ones (numbering reversed, every transition list reversed, labels rotated/swapped), both pruning "
        "modes; generated boards with the same transforms.  Compared: solvable flag, probabilities and rewards up to the renumbering "
        "within tol(g)+tol(g'), strategies up to the renaming at states whose competing successors are exactly tied or separated, "
        "diagnostics [6],[7].  Non-trivial: the transform changed an iteration count or the order in which a dead successor / tie is met "
        "(different n_iterations or different raw float vectors); distinct = (game hash, transform).")
RULE += (' Also (rounds 5-6): G-GAP/G-GAPLOOP (values 1e-9..1e-4 apart around the 6-digit resolution), G-CORR, G-BIGR, G-DIGIT (digit-only / ambiguous action names), G-RETRY (cycles through state 0), G-FINREP (final states listed repeatedly, as list or tuple); a seventh of the solves pass the pruning flag as the int 1/0; an eighth of the batches each run with the root logger at DEBUG, under python -O, and with warnings raised on behalf of the repository turned into errors. Transforms digit_labels and blank_labels (names differing only in white space).')
FLOOR = 300
REQUIRED = ["solve.ok"]
ASSUMPTIONS = ["tol(.) = 1e-6*T_max(s) + eps per presentation (exact oracle); pairs whose T is unavailable contribute only flag and separated-state strategy comparisons",
               "strategy differences that consist only of exact ties whose reported floats round to different cells are attributed to the open C04 finding (tie-split-by-convergence), as are their downstream reward differences"]
TIMEOUT = 1800
TABLE = [("G-ACY", 250), ("G-CYC", 300), ("G-SLOW", 60), ("G-DEAD", 350), ("G-TIE", 100), ("G-TIEC", 100), ("G-LEX", 120), ("G-TINY", 40), ("G-TINYB", 100), ("G-INIT0F", 30), ("G-HALF", 40), ("G-LATE", 40), ("G-TINY", 60), ("G-CORR", 120), ("G-DIGIT", 150), ("G-GAP", 60), ("G-RETRY", 60), ("G-FINREP", 100)]


def make_transform(rng, gd, kind):
    n = len(gd["players"])
    labs = games.all_labels(gd)
    if kind == "reverse_numbering":
        perm, shuffle, ren = games.reversal_perm(n), None, {}
    elif kind == "reverse_lists":
        perm, shuffle, ren = list(range(n)), "reverse", {}
    elif kind == "rotate_labels":
        rot = labs[1:] + labs[:1]
        perm, shuffle, ren = list(range(n)), None, dict(zip(labs, rot))
    elif kind == "reverse_alphabet":
        srt = sorted(labs)
        perm, shuffle, ren = list(range(n)), None, dict(zip(srt, srt[::-1]))
    elif kind == "empty_label":
        # "" is a legal action name; renaming one action to it must change nothing else
        perm, shuffle, ren = list(range(n)), None, ({rng.choice(labs): ""} if labs and "" not in labs else {})      # renamings are injective
    elif kind == "blank_labels":
        # names that differ only by leading / trailing white space are different names
        variants = ["go", "go ", " go", "go  ", "\tgo", "go\t", " go ", "go\u00a0", "  go", "go\n"]
        perm, shuffle = list(range(n)), None
        ren = dict(zip(labs, variants)) if len(labs) <= len(variants) else {}
    elif kind == "digit_labels":
        # names made of digits and one letter, aimed so that "<state index><name>" (or the reverse) is ambiguous between two states
        perm, shuffle, ren = list(range(n)), None, games.digit_renaming(rng, gd, analysis.Analysis(gd))
    else:
        perm = games.random_perm(rng, n)
        shuffle = rng.choice([None, "random", "random", "reverse"])
        r = rng.random()
        if r < 0.3:
            ren = {}
        elif r < 0.6:
            sh = labs[:]
            rng.shuffle(sh)
            ren = dict(zip(labs, sh))                      # permutation of the existing labels (includes swaps)
        else:
            ren = {a: "z%02d_%s" % (len(labs) - i, a[::-1]) for i, a in enumerate(labs)}   # flips lexicographic order
    return {"perm": perm, "shuffle": shuffle, "rename": ren, "kind": kind, "shuffle_seed": rng.randrange(10 ** 9)}


def apply_transform(gd, tf):
    import random
    g2 = games.permute(gd, tf["perm"])
    if tf["shuffle"]:
        g2 = games.shuffle_transitions(random.Random(tf["shuffle_seed"]), g2, tf["shuffle"])
    if tf["rename"]:
        g2 = games.rename_actions(g2, tf["rename"])
    return g2


def _strat_expected(strat_s, tr2, ren):
    """strategy of g at s, renamed and re-ordered by g' transition order."""
    want = {ren.get(a, a) for a in strat_s}
    return [a for a, _ in tr2 if a in want]


def compare(gd, gd2, tf, out, out2, prune, an):
    """-> (problems, known, stats)"""
    perm, ren = tf["perm"], tf["rename"]
    n = an.n
    problems, known = [], []
    stats = {"pairs": 1, "tol_inconclusive_pairs": 0, "strategy_states_compared": 0, "strategy_states_skipped": 0,
             "max_diff_over_tol_prob": 0.0, "max_diff_over_tol_rew": 0.0}
    s1, s2 = out.status, out2.status
    if "budget" in (s1, s2):
        return None, None, stats
    if s1 != s2:
        w = {"problem": "one presentation is declared %s, the other %s" % (s1, s2), "msg": [out.msg, out2.msg]}
        # sub-tolerance positive values (open C06 finding) may flip with the presentation
        problems.append(w)
        return problems, known, stats
    if s1 != "ok":
        return problems, known, stats
    r1, r2 = out.result, out2.result
    if tf["kind"] in ("rotate_labels", "reverse_alphabet", "empty_label", "digit_labels", "blank_labels") and not tf["shuffle"] and tf["perm"] == list(range(n)):
        # renaming only: numbering and transition order are untouched, so the computation must be the same one step for
        # step - every numeric output identical (==), iteration counts included; strategies equal up to the renaming
        stats["rename_only_pairs"] = 1
        for i, nm in ((2, "expected rewards"), (3, "probabilities"), (4, "reachability iterations"), (5, "reward iterations"),
                      (6, "probabilities under minimal reward"), (7, "rewards under minimal reachability")):
            if r1[i] != r2[i]:
                problems.append({"problem": "renaming the actions changed the reported %s" % nm, "g": repr(r1[i])[:200], "g2": repr(r2[i])[:200]})
        for i, nm in ((0, "final"), (1, "reachability")):
            for s in range(n):
                if gd["players"][s] != PR and r2[i][s] != [ren.get(a, a) for a in r1[i][s]]:
                    problems.append({"state": s, "problem": "renaming the actions changed the %s strategy beyond the renaming" % nm,
                                     "g": r1[i][s], "g2": r2[i][s]})
                    break
        if problems:
            return problems, known, stats
    stopping = an.stopping
    T = [float(t) for t in an.tmax] if stopping else None
    if T is None:
        stats["tol_inconclusive_pairs"] = 1
    v = an.reach["v"]
    # probabilities
    if T is not None:
        for s in range(n):
            tol = 2 * (analysis.DELTA * max(T[s], 1.0) + analysis.eps_fp(1.0))
            d = abs(r1[3][s] - r2[3][perm[s]])
            stats["max_diff_over_tol_prob"] = max(stats["max_diff_over_tol_prob"], d / tol)
            if d > tol:
                problems.append({"state": s, "problem": "probabilities differ between presentations beyond tolerance",
                                 "g": r1[3][s], "g2": r2[3][perm[s]], "tol": tol})
    # reachability strategies
    tie_split = False
    unresolved = False
    for s in range(n):
        if gd["players"][s] == PR:
            if r2[1][perm[s]] is not None or r2[0][perm[s]] is not None:
                problems.append({"state": s, "problem": "probabilistic state has a strategy in the transformed presentation"})
            continue
        tr = gd["transition_list"][s]
        tr2 = gd2["transition_list"][perm[s]]
        exp = _strat_expected(r1[1][s], tr2, ren)
        got = r2[1][perm[s]]
        if got == exp:
            stats["strategy_states_compared"] += 1
            continue
        # classify through exact values
        vals = {a: v[t] for a, t in tr}
        opt = max(vals.values()) if gd["players"][s] == P1 else min(vals.values())
        inv = {ren.get(a, a): a for a, _ in tr}
        diff = set(got) ^ set(exp)
        if not diff and sorted(got) == sorted(exp):
            problems.append({"state": s, "problem": "strategy order does not follow the transformed transition order", "got": got, "expected": exp})
            continue
        gapT = max(T) if T is not None else 1e3
        if all(vals[inv[a]] == opt for a in diff if a in inv) and all(a in inv for a in diff):
            # the open finding explains an omission only if, in the presentation that omits the action, its successor's
            # reported float rounds to another 6-digit cell than the listed ones; equal cells must be listed together
            explained = True
            for a2 in diff:
                a1 = inv[a2]
                t1 = dict(tr)[a1]
                if a2 in exp and a2 not in got:          # omitted in g'
                    listed = {round(r2[3][perm[dict(tr)[inv[b]]]], analysis.DIGITS) for b in got if b in inv}
                    if round(r2[3][perm[t1]], analysis.DIGITS) in listed:
                        explained = False
                elif a2 in got and a2 not in exp:        # omitted in g
                    listed = {round(r1[3][dict(tr)[b]], analysis.DIGITS) for b in r1[1][s]}
                    if round(r1[3][t1], analysis.DIGITS) in listed:
                        explained = False
            if explained:
                tie_split = True
                known.append({"state": s, "problem": "reachability strategies of the two presentations differ only in exactly tied optimal actions",
                              "g": r1[1][s], "g2": got})
            else:
                problems.append({"state": s, "problem": "an exactly tied optimal action whose reported value rounds to the same cell is listed in one presentation and omitted in the other",
                                 "g": r1[1][s], "g2": got, "expected": exp})
        elif any(a in inv and abs(float(vals[inv[a]] - opt)) > analysis.sep_gap(gapT, gapT) for a in diff) or any(a not in inv for a in diff):
            problems.append({"state": s, "problem": "reachability strategy changed beyond the renaming", "g": r1[1][s], "g2": got, "expected": exp})
        else:
            stats["strategy_states_skipped"] += 1
            unresolved = True
    if tie_split:
        return problems, known, stats          # downstream differences are attributed to the tie split
    if unresolved:
        # the two presentations report different reachability strategies at a state whose competing successors are neither exactly
        # tied nor separated by more than the tolerance (outside the property's claim): the restricted games may legitimately
        # differ from here on, so rewards / final strategies / diagnostics of this pair are not compared
        stats["tol_inconclusive_pairs"] = 1
        return problems, known, stats
    # the open sub-tolerance finding at inner states: a state whose true value is positive but within the convergence band is
    # reported as exactly 0 in one presentation (the sweeps stopped before it was reached) and as a tiny positive number in the other.
    # With pruning, conditioning then treats it as dead in one of them only: the two conditioned games are different games, and
    # everything computed from them (rewards, final strategies, diagnostics) is attributed to that finding
    if prune and T is not None:
        zero_mismatch = [s for s in range(n) if (r1[3][s] == 0) != (r2[3][perm[s]] == 0)]
        if zero_mismatch and all(0 < float(v[s]) <= analysis.DELTA * max(T[s], 1.0) + 1e-9 for s in zero_mismatch):
            known.append({"state": zero_mismatch[0], "finding": "sub-tolerance-positive-value",
                          "problem": "a state with a positive value below the convergence band is reported as exactly 0 in one presentation only; "
                                     "the conditioned games differ",
                          "g": r1[3][zero_mismatch[0]], "g2": r2[3][perm[zero_mismatch[0]]]})
            # what the finding does NOT explain: a Player-1 state that is not an ancestor of any such state keeps its own transitions
            # in both presentations (Player-1 states are never blanked), so its reward and final strategy must still agree
            pred = [[] for _ in range(n)]
            for a_, tr in enumerate(gd["transition_list"]):
                for _, t in tr:
                    pred[t].append(a_)
            affected, stack = set(), list(zero_mismatch)
            while stack:
                x = stack.pop()
                for a_ in pred[x]:
                    if a_ not in affected:
                        affected.add(a_)
                        stack.append(a_)
            try:
                tall = float(an.tmax_solve)
                rall = float(an.rmax_solve(True))
            except OracleInconclusive:
                return problems, known, stats
            for s_ in range(n):
                if gd["players"][s_] != P1 or s_ in affected:
                    continue
                stats["unaffected_p1_states_compared"] = stats.get("unaffected_p1_states_compared", 0) + 1
                tol = 2 * (analysis.DELTA * max(tall, 1.0) + analysis.eps_fp(rall))
                exp = _strat_expected(r1[0][s_], gd2["transition_list"][perm[s_]], ren)
                if abs(r1[2][s_] - r2[2][perm[s_]]) > tol or (r1[0][s_] == []) != (r2[0][perm[s_]] == []):
                    problems.append({"state": s_, "problem": "a Player-1 state that no sub-tolerance state hangs below reports different rewards / strategies in the two presentations",
                                     "g": [r1[2][s_], r1[0][s_]], "g2": [r2[2][perm[s_]], r2[0][perm[s_]]], "expected_strategy": exp})
            return problems, known, stats
    # rewards / final strategies / diagnostics: need the conditioned game
    try:
        cond = analysis.Conditioned(gd, r1, prune)
        cond_ok = cond.stopping
        Tc = cond.tmax if cond_ok else None
        Vc = cond.values if cond_ok else None
    except OracleInconclusive:
        cond_ok, Tc, Vc = False, None, None
    if not cond_ok:
        stats["tol_inconclusive_pairs"] = 1
        return problems, known, stats
    final_split = False
    if prune:
        # states outside the closure: whether they are blanked, and what they report, is a function of the game's structure
        # (the blanking loop runs to a fixed point), so it must not depend on the presentation either
        try:
            tall = float(an.tmax_solve)
            rall = float(an.rmax_solve(True))
        except OracleInconclusive:
            tall = None
        if tall is not None:
            for s in range(n):
                if s in cond.scope:
                    continue
                stats["outside_closure_states_compared"] = stats.get("outside_closure_states_compared", 0) + 1
                tol = 2 * (analysis.DELTA * max(tall, 1.0) + analysis.eps_fp(rall))
                if abs(r1[2][s] - r2[2][perm[s]]) > tol:
                    problems.append({"state": s, "problem": "expected reward of a state outside the reachable part differs between presentations beyond tolerance",
                                     "g": r1[2][s], "g2": r2[2][perm[s]], "tol": tol})
                if gd["players"][s] != PR and (r1[0][s] == []) != (r2[0][perm[s]] == []):
                    problems.append({"state": s, "problem": "a state outside the reachable part is blanked in one presentation and not in the other",
                                     "g": r1[0][s], "g2": r2[0][perm[s]]})
    for s in sorted(cond.scope):
        tol = 2 * (analysis.DELTA * max(Tc[s], 1.0) + analysis.eps_fp(Vc[s]))
        d = abs(r1[2][s] - r2[2][perm[s]])
        stats["max_diff_over_tol_rew"] = max(stats["max_diff_over_tol_rew"], d / tol)
        if d > tol:
            problems.append({"state": s, "problem": "expected rewards differ between presentations beyond tolerance",
                             "g": r1[2][s], "g2": r2[2][perm[s]], "tol": tol})
    for s in sorted(cond.closure):
        if gd["players"][s] == PR:
            continue
        trc = cond.g.tl[s]
        if not trc:
            continue
        tr2 = gd2["transition_list"][perm[s]]
        exp = _strat_expected(r1[0][s], tr2, ren)
        got = r2[0][perm[s]]
        if got == exp:
            stats["strategy_states_compared"] += 1
            continue
        vals = {a: Vc[t] for a, t in trc}
        opt = max(vals.values()) if gd["players"][s] == P1 else min(vals.values())
        inv = {ren.get(a, a): a for a, _ in trc}
        diff = set(got) ^ set(exp)
        if not diff:
            problems.append({"state": s, "problem": "final strategy order does not follow the transformed transition order", "got": got, "expected": exp})
        elif all(a in inv and vals[inv[a]] == opt for a in diff):
            explained = True
            for a2 in diff:
                t1 = dict(trc)[inv[a2]]
                if a2 in exp and a2 not in got:
                    listed = {round(r2[2][perm[dict(trc)[inv[b]]]], analysis.DIGITS) for b in got if b in inv}
                    if round(r2[2][perm[t1]], analysis.DIGITS) in listed:
                        explained = False
                elif a2 in got and a2 not in exp:
                    listed = {round(r1[2][dict(trc)[b]], analysis.DIGITS) for b in r1[0][s] if b in dict(trc)}
                    if round(r1[2][t1], analysis.DIGITS) in listed:
                        explained = False
            if explained:
                final_split = True
                known.append({"state": s, "problem": "final strategies of the two presentations differ only in exactly tied optimal actions",
                              "g": r1[0][s], "g2": got})
            else:
                problems.append({"state": s, "problem": "an exactly tied reward-optimal action whose reported value rounds to the same cell is listed in one presentation and omitted in the other",
                                 "g": r1[0][s], "g2": got, "expected": exp})
        elif any(a not in inv or abs(float(vals[inv[a]] - opt)) > analysis.sep_gap(max(Tc), max(Tc)) for a in diff):
            problems.append({"state": s, "problem": "final strategy changed beyond the renaming", "g": r1[0][s], "g2": got, "expected": exp})
        else:
            stats["strategy_states_skipped"] += 1
    if not final_split and not known:
        single = all(gd["players"][s] == PR or not cond.g.tl[s] or len(r1[0][s]) == 1 for s in cond.closure)
        if single:
            for s in sorted(cond.closure):
                tol = 2 * (analysis.DELTA * max(Tc[s], 1.0) + analysis.eps_fp(Vc[s]))
                for i, nm in ((6, "probabilities under minimal reward"), (7, "rewards under minimal reachability")):
                    if abs(r1[i][s] - r2[i][perm[s]]) > tol:
                        # [7] is only pinned down when rewards are separated (C14 scope): require that here too
                        problems.append({"state": s, "problem": "'%s' differs between presentations beyond tolerance" % nm,
                                         "g": r1[i][s], "g2": r2[i][perm[s]], "tol": tol, "needs_scope": True})
    return problems, known, stats


def _c14_scope(gd, res, prune):
    try:
        cond = analysis.Conditioned(gd, res, prune)
        if not cond.stopping:
            return False
        _, _, scope, _ = analysis.check_diagnostics(gd, res, prune, cond)
        return scope
    except OracleInconclusive:
        return False


def decide(gd, idx, cls, tier, rng, tfs=None):
    an = analysis.Analysis(gd)
    res = {"idx": idx, "verdict": "held", "stats": {}, "tags": [cls], "key": games.canon_key(gd), "nontrivial": False}
    try:
        if not (an.stopping and an.finals_absorbing):
            return sc.skipped(idx, "not a stopping game with absorbing finals")
        limit = sc.limit_for(an)
        an.reach
    except OracleInconclusive as e:
        res.update(verdict="inconclusive", what="oracle: " + str(e))
        return res
    if tfs is None:
        k = 4 if tier == "quick" else 12
        tfs = [make_transform(rng, gd, kd) for kd in ["reverse_numbering", "reverse_lists", "rotate_labels", "reverse_alphabet", "empty_label", "digit_labels", "blank_labels"] + ["random"] * k]
    base = {p: monitors.observed_solve(games.to_solver(gd), p, limit) for p in (True, False)}
    problems, known = [], []
    for tf in tfs:
        gd2 = apply_transform(gd, tf)
        for prune in (True, False):
            out2 = monitors.observed_solve(games.to_solver(gd2), prune, limit)
            pr, kn, st = compare(gd, gd2, tf, base[prune], out2, prune, an)
            if pr is None:
                res["stats"]["budget_pairs"] = res["stats"].get("budget_pairs", 0) + 1
                continue
            # diagnostics problems only count inside C14's scope (no reward ties at reachable states)
            pr2 = []
            for p in pr:
                if p.get("needs_scope") and not _c14_scope(gd, base[prune].result, prune):
                    continue
                pr2.append(p)
            pr = pr2
            for kk, vv in st.items():
                if kk.startswith("max_"):
                    res["stats"][kk] = max(res["stats"].get(kk, 0.0), vv)
                else:
                    res["stats"][kk] = res["stats"].get(kk, 0) + vv
            res["stats"]["pairs_" + tf["kind"]] = res["stats"].get("pairs_" + tf["kind"], 0) + 1
            if base[prune].status == "ok" and out2.status == "ok":
                r1, r2 = base[prune].result, out2.result
                if r1[4] != r2[4] or r1[5] != r2[5] or sorted(r1[2]) != sorted(r2[2]):
                    res["nontrivial"] = True
                    res["stats"]["pairs_execution_changed"] = res["stats"].get("pairs_execution_changed", 0) + 1
            # the open C06 finding (positive value below tolerance) can make the flag presentation-dependent
            for p in pr:
                # the open sub-tolerance finding explains a presentation-dependent 'no solution' only if, in the presentation that
                # raised it, the iteration really stopped with state 0 still at EXACTLY 0 (visible in its unpruned run)
                nosol_side = gd if base[prune].status == "nosol" else gd2
                still_zero = False
                if p["problem"].startswith("one presentation is declared") and prune:
                    o_np = monitors.observed_solve(games.to_solver(nosol_side), False, limit)
                    still_zero = o_np.status == "ok" and o_np.result[3][0] == 0
                if p["problem"].startswith("one presentation is declared") and prune and 0 in an.W and still_zero and \
                        float(an.reach["v"][0]) <= analysis.DELTA * max(float(an.tmax[0]), 1.0) + 1e-9:
                    kn = kn + [dict(p, finding="sub-tolerance-positive-value")]
                    pr = [q for q in pr if q is not p]
            if pr:
                problems.append({"transform": tf, "prune": prune, "problems": pr[:3]})
            if kn:
                known.append({"transform": tf["kind"], "prune": prune, "known": kn[:2]})
    if not res["stats"].get("pairs"):
        return sc.skipped(idx, "no pair compared")
    if problems:
        p = problems[0]
        res.update(verdict="violated", what="%s (state %s, prune=%s, transform %s)" % (p["problems"][0]["problem"], p["problems"][0].get("state"), p["prune"], p["transform"]["kind"]),
                   witness=problems[:3], case={"game": games.enc_game(gd), "transforms": [p["transform"] for p in problems[:3]]})
    elif known:
        res.update(verdict="known", finding=known[0]["known"][0].get("finding", "tie-split-by-convergence"), what="%s" % (known[0]["known"][0]["problem"],),
                   witness=known[:2], case={"game": games.enc_game(gd)})
    if idx % 60 == 0 and an.n <= 8:
        res["sample"] = {"game": games.to_solver(gd), "transform": {k: tfs[3][k] for k in ("perm", "shuffle", "rename")} if len(tfs) > 3 else None}
    return res


# ----------------------------------------------------------------------------- boards

def decide_board(spec, idx, tier, rng):
    from .. import bigoracle
    gamesd = boards_common.make_board(tuple(spec))
    results = []
    for name, game in gamesd.items():
        n = len(game["players"])
        m = sum(len(t) for t in game["transition_list"])
        gd = games.from_solver_input(game)
        res = {"idx": idx, "verdict": "held", "stats": {"board_games": 1, "max_board_states": n}, "tags": ["B-BOARD"],
               "key": "board%s:%s" % (spec, name), "nontrivial": True}
        base = {p: boards_common.solve_staged(game, p, n, m) for p in (True, False)}
        if all(o.status == "budget" for o in base.values()):
            res.update(verdict="skipped", what="no result (aux divergence / budget)")
            results.append(res)
            continue
        bg = bigoracle.BigGame(game)
        try:
            r = bigoracle.reach_values(bg)
        except OracleInconclusive:
            r = None
        problems = []
        known_d8 = []
        kinds = ["reverse_numbering", "reverse_lists", "rotate_labels", "random"]
        for kd in kinds:
            tf = make_transform(rng, gd, kd)
            gd2 = apply_transform(gd, tf)
            game2 = games.to_solver(gd2)
            perm, ren = tf["perm"], tf["rename"]
            for prune in (True, False):
                o1 = base[prune]
                if o1.status == "budget":
                    continue
                o2 = boards_common.solve_staged(game2, prune, n, m)
                if o2.status == "budget":
                    if boards_common.is_d8(o2):
                        # the open C11 mechanism, seen through two presentations: which tied action the reward step follows depends on
                        # the transition order, and one choice closes a rewarded cycle for the auxiliary quantity
                        known_d8.append({"problem": "one presentation is solved, the other never stops (auxiliary quantity diverges)", "transform": kd, "prune": prune})
                    continue
                res["stats"]["pairs"] = res["stats"].get("pairs", 0) + 1
                if o1.status != o2.status:
                    problems.append({"problem": "one presentation is declared %s, the other %s" % (o1.status, o2.status), "transform": kd, "prune": prune})
                    continue
                if o1.status != "ok":
                    continue
                r1, r2 = o1.result, o2.result
                if r1[4] != r2[4] or r1[5] != r2[5]:
                    res["stats"]["pairs_execution_changed"] = res["stats"].get("pairs_execution_changed", 0) + 1
                T = bigoracle.reach_T(bg, r, r1[3]) if r is not None else None
                if T is None:
                    res["stats"]["tol_inconclusive_pairs"] = res["stats"].get("tol_inconclusive_pairs", 0) + 1
                else:
                    for s in range(n):
                        tol = 2 * (analysis.DELTA * max(float(T[s]), 1.0) + 2e-9)
                        d = abs(r1[3][s] - r2[3][perm[s]])
                        res["stats"]["max_diff_over_tol_prob"] = max(res["stats"].get("max_diff_over_tol_prob", 0.0), d / tol)
                        if d > tol:
                            problems.append({"state": s, "problem": "probabilities differ between presentations beyond tolerance",
                                             "g": r1[3][s], "g2": r2[3][perm[s]], "tol": tol, "transform": kd, "prune": prune})
                            break
                    # reach strategies at states whose reported successor values are clearly separated in both presentations
                    Tm = float(max(T))
                    gap = 2 * analysis.sep_gap(Tm, Tm)
                    for s in range(n):
                        if game["players"][s] == PR:
                            continue
                        tr = game["transition_list"][s]
                        xs = sorted(r1[3][t] for _, t in tr)
                        if any(b - a <= gap for a, b in zip(xs, xs[1:])):
                            continue
                        res["stats"]["strategy_states_compared"] = res["stats"].get("strategy_states_compared", 0) + 1
                        exp = _strat_expected(r1[1][s], game2["transition_list"][perm[s]], ren)
                        if r2[1][perm[s]] != exp:
                            problems.append({"state": s, "problem": "reachability strategy changed beyond the renaming",
                                             "g": r1[1][s], "g2": r2[1][perm[s]], "transform": kd, "prune": prune})
                            break
        if problems:
            res.update(verdict="violated", what="board %s %s: %s" % (spec, name, problems[0]["problem"]), witness=problems[:3],
                       case={"board": list(spec), "game": name})
        elif known_d8:
            res.update(verdict="known", finding="aux-min-reach-reward-diverges", what="board %s %s: %s (transform %s, prune=%s)" % (
                spec, name, known_d8[0]["problem"], known_d8[0]["transform"], known_d8[0]["prune"]), witness=known_d8[:3],
                case={"board": list(spec), "game": name})
        elif not res["stats"].get("pairs"):
            res.update(verdict="skipped", what="no pair compared")
        results.append(res)
    return results


BOARD_SPECS_Q = [(2, 2, 1, .1, .1, .1, .3, False), (3, 3, 2, .1, .1, .1, .3, True), (2, 5, 3, .5, .29, .01, .3, False),
                 (4, 4, 5, .29, .1, .5, .3, False), (5, 5, 47, .1, .1, .1, .3, False), (5, 2, 4, .01, .5, .9, .5, True),
                 (1, 6, 6, .9, .9, .1, .3, False), (6, 1, 7, .1, .1, .29, .9, False), (3, 4, 21, .1, .1, .1, .3, True), (4, 3, 22, .1, .1, .1, .3, False)]


def board_specs(tier):
    if tier == "quick":
        return BOARD_SPECS_Q
    extra = [(rows, cols, 300 + k, .1, .1, .1, .3, k % 2 == 0) for k, (rows, cols) in enumerate(
        [(r, c) for r in (2, 3, 4, 5, 6, 8) for c in (2, 3, 4, 5, 7, 10)] + [(10, 10), (10, 20), (20, 5), (12, 8)])]
    return BOARD_SPECS_Q + extra


def plan(tier, seed):
    b = sc.plan_classes(tier, TABLE, per_q=20, per_t=100, mult_t=8)
    b += [{"cls": "B-BOARD", "start": i, "count": 1, "timeout": 1700} for i in range(len(board_specs(tier)))]
    return b


def run_batch(batch):
    monitors.install()
    monitors.MON.flags.update(alias=False, prune=False)
    for idx in range(batch["start"], batch["start"] + batch["count"]):
        EMIT_START(idx)
        rng = games.case_rng(batch["seed"], PID, batch["cls"], idx)
        if batch["cls"] == "B-BOARD":
            yield from decide_board(board_specs(batch["tier"])[idx], idx, batch["tier"], rng)
            continue
        gd = games.gen_class(rng, batch["cls"])
        if gd is None:
            yield sc.skipped(idx, "generator gave up")
            continue
        yield decide(gd, idx, batch["cls"], batch["tier"], rng)


def replay(case):
    import random
    monitors.install()
    monitors.MON.flags.update(alias=False, prune=False)
    if "board" in case:
        rs = decide_board(tuple(case["board"]), 0, "thorough", random.Random(0))
        for r in rs:
            if r["verdict"] == "violated":
                return r
        return rs[0]
    gd = games.dec_game(case["game"])
    return decide(gd, 0, "REPLAY", "quick", random.Random(0), tfs=case.get("transforms"))


if __name__ == "__main__":
    sys.exit(harness.main(sys.modules[__name__]))
