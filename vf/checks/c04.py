"""C04 - reachability strategies list exactly the value-optimal actions (DESIGN 4/C04)."""
import sys
from .. import harness, monitors, games, analysis
from ..oracle import OracleInconclusive, P1, P2, PR
from . import solver_common as sc

PID = "C04"
LEVEL = "exploration"
RULE = ("games of classes G-TIE (acyclic exact ties through different float sums: parallel-edge splits 0.1+0.2 vs 0.3, reordered "
        "transitions, renumbered twins), G-TIEC (cyclic twins, twin rings), G-ACY, G-CYC, G-EC, G-DEAD (all-zero successors), "
        "G-LEX solved in both pruning modes; expected set = arg-max / arg-min over the exact rational values; a state is in scope "
        "only if every pair of its successors is exactly tied or separated by more than 2*delta*T+2e-6.  Non-trivial: the game has an "
        "in-scope player state with an exact tie of >= 2 optimal actions or a Player-2 state with >= 2 actions; distinct = game hash.")
RULE += (' Also (rounds 5-6): G-GAP/G-GAPLOOP (values 1e-9..1e-4 apart around the 6-digit resolution), G-CORR, G-BIGR, G-DIGIT (digit-only / ambiguous action names), G-RETRY (cycles through state 0), G-FINREP (final states listed repeatedly, as list or tuple); a seventh of the solves pass the pruning flag as the int 1/0; an eighth of the batches each run with the root logger at DEBUG, under python -O, and with warnings raised on behalf of the repository turned into errors. THREADS class: the real code called from 3-4 threads of one interpreter (1 us switch interval, yield injection at every ~1000-3000th executed line), each concurrent outcome compared with the sequential outcome of the same process.')
FLOOR = 300
REQUIRED = ["solve.ok"]
ASSUMPTIONS = ["separation precondition 2*delta*T + 2e-6 (two convergence errors + one rounding cell each); states in between are skipped and counted",
               "known finding tie-split-by-convergence is recognised by mechanism: reported list is a non-empty subset of the exact optimal set, "
               "every omitted action is an exact tie and its reported float rounds to a different 6-digit cell than the listed ones"]
TIMEOUT = 1800
TABLE = [("G-TIE", 600), ("G-TIEC", 500), ("G-ACY", 500), ("G-CYC", 500), ("G-EC", 300), ("G-DEAD", 300), ("G-LEX", 150), ("G-ACYNF", 300), ("G-CYCNF", 300), ("G-TINYB", 150), ("G-INIT0NF", 100), ("G-SLOW", 200), ("G-NEAR", 400), ("G-NEARC", 300), ("G-DUPL", 300), ("G-MIX", 500), ("G-SMALLX", 300), ("G-VSLOWR", 3), ("G-EMPTY", 300), ("G-GAP", 500), ("G-GAPLOOP", 100), ("G-DIGIT", 150), ("G-RETRY", 150), ("G-FINREP", 300)]


def _plan_base(tier, seed):
    return sc.plan_classes(tier, TABLE)


def decide(gd, idx, cls):
    an = analysis.Analysis(gd)
    res = {"idx": idx, "verdict": "held", "stats": {}, "tags": [cls], "key": games.canon_key(gd)}
    try:
        an.reach
        outs = sc.solve_both(gd, an)
    except OracleInconclusive as e:
        res.update(verdict="inconclusive", what="oracle: " + str(e))
        return res
    problems, known = [], []
    checked = False
    for prune, out in outs.items():
        if out.status != "ok":
            continue
        pr, kn, st = analysis.check_reach_strategies(an, out.result)
        checked = True
        mode = "prune" if prune else "no-prune"
        problems += [dict(p, mode=mode) for p in pr]
        known += [dict(p, mode=mode) for p in kn]
        if not prune or outs[False].status != "ok":
            for k, v in st.items():
                res["stats"][k] = res["stats"].get(k, 0) + v
            res["nontrivial"] = st["tie_states"] > 0 or st["multi_action_p2"] > 0
            if an.cyclic and st["tie_states"]:
                res["stats"]["cyclic_tie_states"] = st["tie_states"]
    if outs[True].status == "ok" and outs[False].status == "ok":
        res["stats"]["mode_pairs_compared"] = 1
        if outs[True].result[1] != outs[False].result[1]:
            problems.append({"mode": "both", "problem": "reachability strategies differ between pruning on and off",
                             "prune": outs[True].result[1], "no_prune": outs[False].result[1]})
    if not checked:
        return sc.skipped(idx, "no result: %s/%s" % (outs[True].status, outs[False].status))
    if problems:
        p = problems[0]
        res.update(verdict="violated", what="%s (state %s, %s): got %s expected %s" % (p["problem"], p.get("state"), p["mode"], p.get("got"), p.get("expected")),
                   witness=problems[:4], case={"game": games.enc_game(gd)})
    elif known:
        p = known[0]
        res.update(verdict="known", finding="tie-split-by-convergence",
                   what="state %s lists %s, exact optimal set %s, reported floats %s" % (p["state"], p["got"], p["expected"], p["reported"]),
                   witness=known[:2], case={"game": games.enc_game(gd)})
        res["stats"]["known_cyclic" if an.cyclic else "known_acyclic"] = 1
    if idx % 83 == 0 and an.n <= 9 and outs[False].status == "ok":
        res["sample"] = {"class": cls, "game": games.to_solver(gd), "reported_strategies": outs[False].result[1],
                         "exact_values": [str(v) for v in an.reach["v"]]}
    return res


def plan(tier, seed):
    from . import threads_common
    return threads_common.plan_threads(tier) + _plan_base(tier, seed)


def run_batch(batch):
    if batch["cls"] == "THREADS":
        from . import threads_common
        yield from threads_common.run(batch, PID, ["reachability_strategies"], EMIT_START, 'solve', None)
        return
    monitors.install()
    monitors.MON.flags.update(alias=False, prune=False)
    for idx, gd in sc.iter_games(batch, PID, EMIT_START):
        if gd is None:
            yield sc.skipped(idx, "generator gave up")
            continue
        yield decide(gd, idx, batch["cls"])


def replay(case):
    if "threads" in case:
        from . import threads_common
        return threads_common.replay(case, PID, ["reachability_strategies"], 'solve', None)
    monitors.install()
    return decide(games.dec_game(case["game"]), 0, "REPLAY")


if __name__ == "__main__":
    sys.exit(harness.main(sys.modules[__name__]))
