"""C14 - cross-objective diagnostics match the reported strategies (DESIGN 4/C14)."""
import sys
from .. import harness, monitors, games, analysis
from ..oracle import OracleInconclusive, P1, P2, PR
from . import solver_common as sc

PID = "C14"
LEVEL = "exploration"
RULE = ("solvable stopping games with absorbing finals and no reward ties at reachable states (G-ACYW/G-CYCW: rewards from a wide range, "
        "G-LEX, G-DEAD, G-P2MIN: Player-2 states with several reachability-minimal actions of different cost) in both pruning modes; "
        "[6] is compared with the exact reachability probability of the Markov chain 'conditioned game + both final strategies', [7] with "
        "the exact min-cost play (policy iteration over Fractions) of Player 1's final strategy against Player 2 restricted to its "
        "reported reachability strategy.  Non-trivial: [6] differs from the reported probabilities or [7] from the reported rewards at "
        "some closure state, or a Player-2 state had >= 2 reachability-minimal actions; distinct = game hash x mode.")
RULE += (' Also (rounds 5-6): G-GAP/G-GAPLOOP (values 1e-9..1e-4 apart around the 6-digit resolution), G-CORR, G-BIGR, G-DIGIT (digit-only / ambiguous action names), G-RETRY (cycles through state 0), G-FINREP (final states listed repeatedly, as list or tuple); a seventh of the solves pass the pruning flag as the int 1/0; an eighth of the batches each run with the root logger at DEBUG, under python -O, and with warnings raised on behalf of the repository turned into errors. run_games entries and INFO log lines (M-LOG) compared with solve() on a fifth of the games.')
FLOOR = 200
REQUIRED = ["solve.ok"]
ASSUMPTIONS = ["scope is the property's own: single-action final strategies on the closure and separated rewards (gap > 2*delta*T+2e-6), "
               "checked exactly; out-of-scope solves are skipped and counted",
               "band delta*T_max(s) + eps on both diagnostics"]
TIMEOUT = 1800
TABLE = [("G-ACYW", 700), ("G-CYCW", 700), ("G-LEX", 400), ("G-DEAD", 400), ("G-P2MIN", 500), ("G-SLOW", 80), ("G-TINYB", 300), ("G-AUXFAST", 40), ("G-P2NEST", 400), ("G-CORR", 400), ("G-GAP", 150), ("G-RETRY", 400), ("G-FINREP", 100)]


def plan(tier, seed):
    return sc.plan_classes(tier, TABLE)


def gen_p2min(rng):
    """Player-2 states with several reachability-minimal actions whose continuations cost differently."""
    from fractions import Fraction as F
    gd = games.gen_acy(rng, nmax=8, rmax=60) if rng.random() < 0.6 else (games.gen_cyc(rng, nmax=8, rmax=60) or games.gen_acy(rng, nmax=8, rmax=60))
    g = games.to_oracle(gd)
    finals = [f for f in gd["final_states"] if g.absorbing(f)]
    if not finals:
        return gd
    f = finals[0]
    players, tl, rewards = list(gd["players"]), [list(t) for t in gd["transition_list"]], list(gd["rewards"])
    sinks = [s for s in range(g.n) if g.absorbing(s) and s not in gd["final_states"]]
    if not sinks:
        players.append(PR); rewards.append(F(0)); tl.append([(F(1), len(players) - 1)]); sinks = [len(players) - 1]
    z = sinks[0]
    q = rng.choice([F(1, 2), F(1, 3), F(3, 4)])
    k = rng.randint(2, 3)
    branches = []
    for i in range(k):
        b = len(players)
        players.append(PR); rewards.append(F(rng.randint(1, 90))); tl.append([(q, f), (1 - q, z)] if rng.random() < 0.5 else [(1 - q, z), (q, f)])
        branches.append(b)
    extra = []
    if rng.random() < 0.5:      # a non-minimal alternative (higher reachability) that is cheap: must NOT be used for [7]
        b = len(players)
        players.append(PR); rewards.append(F(0)); tl.append([(F(1), f)])
        extra.append(b)
    c = len(players)
    opts = list(zip(games.LABELS, branches + extra))
    rng.shuffle(opts)
    players.append(P2); rewards.append(F(rng.randint(0, 9))); tl.append(opts)
    inner = [s for s in range(g.n) if not g.absorbing(s)]
    hooked = rng.sample(inner, min(len(inner), rng.randint(1, 2)))
    if 0 not in hooked and rng.random() < 0.7:
        hooked.append(0)
    for s in hooked:
        if players[s] == PR:
            share = rng.choice([F(1, 2), F(1, 4)])
            tl[s] = [(p * (1 - share), t) for p, t in tl[s]] + [(share, c)]
        else:
            used = {a for a, _ in tl[s]}
            tl[s] = tl[s] + [([l for l in games.LABELS if l not in used][0], c)]
    out = {"rewards": rewards, "players": players, "transition_list": tl, "final_states": list(gd["final_states"])}
    return games.renumber_random(rng, out)


def gen_p2nest(rng):
    """A chooser (Player 1 or Player 2) over k reach-tied branches, each leading to a Player-2 state N_i whose reachability-minimal
    action ('r': low reach, expensive) differs from its reward-minimal action ('c': sure, cheap).  The two diagnostics then rank the
    branches differently from the main rewards: every way of mixing up the three quantities shows."""
    from fractions import Fraction as F
    k = rng.randint(2, 4)
    q = rng.choice([F(1, 2), F(1, 4), F(3, 4), F(9, 10)])
    costs = rng.sample(range(3, 200), 2 * k)
    players, tl, rewards = [], [], []

    def add(owner, tr, rew=0):
        players.append(owner); tl.append(tr); rewards.append(F(rew))
        return len(players) - 1

    init = add(PR, None)
    f = add(PR, None); tl[f] = [(F(1), f)]
    z = add(PR, None); tl[z] = [(F(1), z)]
    tops = []
    for i in range(k):
        e, c = sorted(costs[2 * i:2 * i + 2], reverse=True)
        E = add(PR, [(q, f), (1 - q, z)] if rng.random() < 0.5 else [(1 - q, z), (q, f)], e)
        C = add(PR, [(F(1), f)], c)
        acts = [("r", E), ("c", C)]
        rng.shuffle(acts)
        tops.append(add(P2, acts, rng.randint(0, 2)))
    owner = rng.choice([P1, P2])
    opts = list(zip(games.LABELS, tops))
    rng.shuffle(opts)
    top = add(owner, opts, rng.randint(0, 5))
    tl[init] = [(F(1), top)] if rng.random() < 0.5 else [(F(1, 2), top), (F(1, 2), f)]
    rewards[init] = F(rng.randint(0, 5))
    gd = {"rewards": rewards, "players": players, "transition_list": tl, "final_states": [f]}
    # sibling: the same game with each branch's two chance states exchanging their transitions (the sure one becomes the risky one):
    # every Player-2 state keeps its index and its action/target list, but its reachability-minimal action flips
    tl2 = [list(t) for t in tl]
    for top_i in tops:
        (a1, s1), (a2, s2) = tl[top_i]
        tl2[s1], tl2[s2] = list(tl[s2]), list(tl[s1])
    sib = dict(gd, transition_list=tl2)
    perm = games.random_perm(rng, len(players))
    return games.permute(gd, perm), games.permute(sib, perm)


def decide(gd, idx, cls):
    sib = gd.pop("_sibling", None)
    if sib is not None:
        # solved first, in the same process: anything remembered per state index / transition list across games is stale afterwards
        r0 = decide(sib, idx, cls + "-SIB")
        if r0.get("verdict") == "violated":
            return r0
    an = analysis.Analysis(gd)
    res = {"idx": idx, "verdict": "held", "stats": {}, "tags": [cls], "key": games.canon_key(gd), "nontrivial": False}
    try:
        if not (an.stopping and an.finals_absorbing):
            return sc.skipped(idx, "not a stopping game with absorbing finals")
        outs = sc.solve_both(gd, an)
    except OracleInconclusive as e:
        res.update(verdict="inconclusive", what="oracle: " + str(e))
        return res
    problems = []
    inscope = 0
    for prune, out in outs.items():
        if out.status != "ok":
            continue
        mode = "prune" if prune else "no-prune"
        try:
            cond = analysis.Conditioned(gd, out.result, prune)
            if not cond.stopping:
                continue
            pr, st, scope, why = analysis.check_diagnostics(gd, out.result, prune, cond)
        except OracleInconclusive:
            res["stats"]["oracle_inconclusive"] = res["stats"].get("oracle_inconclusive", 0) + 1
            continue
        if not scope:
            res["stats"]["solves_out_of_scope"] = res["stats"].get("solves_out_of_scope", 0) + 1
            continue
        inscope += 1
        res["stats"]["solves_in_scope"] = res["stats"].get("solves_in_scope", 0) + 1
        for k, v in st.items():
            if k.startswith("max_"):
                res["stats"][k] = max(res["stats"].get(k, 0.0), v)
            else:
                res["stats"][k] = res["stats"].get(k, 0) + v
        if st["p2_multi_reach_min"] or st["diag6_differs_from_prob"] or st["diag7_differs_from_rew"]:
            res["nontrivial"] = True
        problems += [dict(p, mode=mode) for p in pr]
    if not inscope:
        return sc.skipped(idx, "no solve in scope (ties / unsolved)")
    if idx % 5 == 0 and not problems:
        # the same diagnostics as the command line shows them: run_games' entries and its INFO log (the only report without -s)
        # must state the two vectors solve() returned - each under its own label
        cr = monitors.mods()["conditionalrewards"]
        rr = None
        with monitors.budget(sc.limit_for(an) * 3):
            try:
                with monitors.capture_log() as cl:
                    rr = cr.run_games({"g": games.to_solver(gd)})
            except monitors.StepBudgetExceeded:
                rr = None
            finally:
                monitors.MON.metering = False
        if rr is not None:
            res["stats"]["run_games_logs_checked"] = 1
            for prune, key in ((True, "g"), (False, "g_no_prune")):
                if outs[prune].status == "ok" and rr[key]["msg"] == "Game solved":
                    if rr[key]["prob_min_rew"] != outs[prune].result[6] or rr[key]["rew_min_reach"] != outs[prune].result[7]:
                        problems.append({"problem": "run_games reports other diagnostics than solve()", "mode": key, "got": [rr[key]["prob_min_rew"], rr[key]["rew_min_reach"]]})
            problems += [dict(q, mode="INFO log", got=q.get("log"), true=q.get("computed")) for q in monitors.check_log_against(cl.blocks(), rr)]
    if problems:
        p = problems[0]
        res.update(verdict="violated", what="%s (state %s, %s): got %s, exact %s" % (p["problem"], p.get("state"), p["mode"], p.get("got"), p.get("true")),
                   witness=problems[:4], case={"game": games.enc_game(gd)})
    if idx % 71 == 0 and an.n <= 9 and outs[True].status == "ok":
        res["sample"] = {"class": cls, "game": games.to_solver(gd), "final": outs[True].result[0],
                         "prob_min_rew": outs[True].result[6], "rew_min_reach": outs[True].result[7]}
    return res


def _gen(batch, idx):
    rng = games.case_rng(batch["seed"], PID, batch["cls"], idx)
    c = batch["cls"]
    if c == "G-ACYW":
        return games.gen_acy(rng, nmax=12, rmax=97)
    if c == "G-CYCW":
        return games.gen_cyc(rng, nmax=12, rmax=97)
    if c == "G-P2MIN":
        return gen_p2min(rng)
    if c == "G-P2NEST":
        gd, sib = gen_p2nest(rng)
        gd["_sibling"] = sib
        return gd
    return games.gen_class(rng, c)


NESTED_LABELS = {"a": "go", "b": "go_slow", "c": "g", "d": "slow", "e": "o", "f": "", "g": "go_", "h": "w", "u": "up", "w": "upper",
                 "stay": "st", "leave": "stay_or_leave", "n": "x", "x": "xx", "y": "xxy", "l": "left", "r": "le", "t": "t", "m": "tm", "k": "k"}


def run_batch(batch):
    monitors.install()
    monitors.MON.flags.update(alias=False, prune=False)
    for idx in range(batch["start"], batch["start"] + batch["count"]):
        EMIT_START(idx)
        gd = _gen(batch, idx)
        if gd is not None and idx % 2 == 1:
            # action names that are substrings of each other (and the empty name): membership tests on names must be exact
            labs = games.all_labels(gd)
            if all(l in NESTED_LABELS for l in labs):
                gd = games.rename_actions(gd, NESTED_LABELS)
        if gd is None:
            yield sc.skipped(idx, "generator gave up")
            continue
        yield decide(gd, idx, batch["cls"])


def replay(case):
    monitors.install()
    return decide(games.dec_game(case["game"]), 0, "REPLAY")


if __name__ == "__main__":
    sys.exit(harness.main(sys.modules[__name__]))
