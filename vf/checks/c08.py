"""C08 - generated games encode the Roborta board rules faithfully (DESIGN 4/C08).

Reference-model monitor: the file written by the real write_robots / create_sg_from_board is read back with the real
read_dict_from_file and each of its three games is checked, from state 0, for probabilistic bisimilarity (owners, rewards,
labels, finals respected) with an independent rule model of the board."""
import itertools
import os
import sys
import tempfile
from .. import harness, monitors, games, roborta_model as rm

PID = "C08"
LEVEL = "exploration"
RULE = ("EXHAUSTIVE: every board with <= 4 tiles (shapes 1x1,1x2,2x1,1x3,3x1,1x4,4x1,2x2) x every arrow layout over {<-,<>,->,v} x every "
        "loose-tile layout x 2 reward layouts (all distinct / all zero), one probability triple, x games A/B/C; SAMPLED: random boards up "
        "to 8x8 through gen_rnd_board (force-down on/off) and through the manual entry point create_sg_from_board, break probabilities "
        "from {1e-6,.01,.1,.29,.5,.9,.999999}.  Non-trivial: the board has a loose tile, a down-only tile, width 1 or length 1, or >= 2 "
        "rows; distinct = (board, probabilities, variant).  exhaustive refers to the <= 4-tile sub-space.")
FLOOR = 1000
EXHAUSTIVE = True
REQUIRED = ["c08.bisimulations"]
DEV = True
ASSUMPTIONS = ["reading of the rules where the prose is silent: a failed robot move lands again on the same tile (break risk applies), the start "
               "tile is not tested for looseness; under this reading the committed generator is self-consistent on >= 2-column boards",
               "probabilistic branches are compared as distributions over bisimulation classes, probabilities rounded to 1e-12"]
TIMEOUT = 1800
SHAPES = [(1, 1), (1, 2), (2, 1), (1, 3), (3, 1), (1, 4), (4, 1), (2, 2)]
PROBS = [1e-6, .01, .1, .29, .5, .9, .999999]


def small_boards():
    """Enumerate (length, width, moves, rewards, loose) for every board with <= 4 tiles."""
    for L, W in SHAPES:
        t = L * W
        for mv in itertools.product(range(4), repeat=t):
            moves = [list(mv[i * W:(i + 1) * W]) for i in range(L)]
            for lo in itertools.product((0, 1), repeat=t):
                loose = [list(lo[i * W:(i + 1) * W]) for i in range(L)]
                for rl in (0, 1):
                    rewards = [[(i * W + j + 1) if rl else 0 for j in range(W)] for i in range(L)]
                    yield L, W, moves, rewards, loose


N_SMALL = sum(4 ** (L * W) * 2 ** (L * W) * 2 for L, W in SHAPES)


def write_and_read(moves, rewards, loose, p_tile, p_robot, p_light, manual=False, decoy=None):
    rg = monitors.mods()["roberta_generator"]
    cr = monitors.mods()["conditionalrewards"]
    mb = monitors.mods()["manual"]
    L, W = len(moves), len(moves[0])
    with tempfile.TemporaryDirectory(prefix="verif-c08-") as d:
        if manual:
            os.makedirs(os.path.join(d, "inputs"))
            cwd = os.getcwd()
            os.chdir(d)
            try:
                if decoy is not None:
                    # an earlier board of the same shape / largest reward / percentages has already been written: same file name
                    mb.create_sg_from_board(moves=decoy[0], rewards=decoy[1], loose_tiles=decoy[2], prob_robot_break=p_robot,
                                            prob_light_break=p_light, prob_tile_break=p_tile)
                mb.create_sg_from_board(moves=moves, rewards=rewards, loose_tiles=loose, prob_robot_break=p_robot,
                                        prob_light_break=p_light, prob_tile_break=p_tile)
            finally:
                os.chdir(cwd)
            files = os.listdir(os.path.join(d, "inputs"))
            path = os.path.join(d, "inputs", files[0])
        else:
            path = os.path.join(d, "b.py")
            rg.write_robots(file_name=path, length=L, width=W, moves=moves, rewards=rewards, loose_tiles=loose,
                            prob_tile_break=p_tile, prob_robot_break=p_robot, prob_light_break=p_light)
        return cr.read_dict_from_file(path)


def decide_board(idx, cls, moves, rewards, loose, p_tile, p_robot, p_light, manual=False):
    L, W = len(moves), len(moves[0])
    res = {"idx": idx, "verdict": "held", "tags": [cls], "stats": {"boards": 1},
           "key": repr((moves, rewards, loose, p_tile, p_robot, p_light)),
           "nontrivial": bool(L >= 2 or W == 1 or any(3 in r for r in moves) or any(1 in r for r in loose))}
    st = res["stats"]
    st["boards_width1"] = int(W == 1)
    st["boards_length1"] = int(L == 1)
    st["boards_down_only_tile"] = int(any(3 in r for r in moves))
    st["boards_loose_tile"] = int(any(1 in r for r in loose))
    if L >= 2 and all(r == moves[0] for r in moves) and idx % 2 == 0:
        moves = [moves[0]] * L                       # [[...]] * L : every row is the SAME list object (a common way to write a board)
        st["boards_aliased_rows"] = 1
    decoy = None
    if manual and L * W >= 2:
        # same shape, same largest reward, same down-only-ness: the manual file name is the same; layout differs
        import random as _r
        r2 = _r.Random(repr(moves))
        has3 = any(3 in r for r in moves)
        dm = [[r2.choice([0, 1, 2]) for _ in range(W)] for _ in range(L)]
        if has3:
            dm[r2.randrange(L)][r2.randrange(W)] = 3
        mx = max(max(r) for r in rewards)
        flat = [x for r in rewards for x in r]
        dr = [[r2.choice(flat + [0]) for _ in range(W)] for _ in range(L)]
        dr[r2.randrange(L)][r2.randrange(W)] = mx
        dl = [[1 - x for x in row] for row in loose]
        decoy = (dm, dr, dl)
        st["manual_over_existing_file"] = 1
    try:
        gamesd = write_and_read(moves, rewards, loose, p_tile, p_robot, p_light, manual, decoy)
    except Exception as e:
        res.update(verdict="violated", what="writing/reading the board file raised %s: %s" % (type(e).__name__, str(e)[:200]),
                   case={"moves": moves, "rewards": rewards, "loose": loose, "probs": [p_tile, p_robot, p_light], "manual": manual})
        return res
    problems = []
    for var in "abc":
        name = "game_" + var
        if name not in gamesd:
            problems.append({"variant": var, "problem": "game missing from the file"})
            continue
        model = rm.build_model(moves, rewards, loose, p_tile, p_robot, p_light, var)
        try:
            ok, info = rm.bisimilar(rm.from_game(gamesd[name]), model)
        except Exception as e:
            problems.append({"variant": var, "problem": "game cannot be walked: %s %s" % (type(e).__name__, str(e)[:100])})
            continue
        monitors.MON.count("c08.bisimulations")
        st["bisimulations"] = st.get("bisimulations", 0) + 1
        st["max_states_in_bisimulation"] = max(st.get("max_states_in_bisimulation", 0), info["states_A"] + info["states_B"])
        if not ok:
            problems.append({"variant": var, "problem": "game %s is not bisimilar to the board's rules" % var.upper(), "path": info.get("path")})
    if problems:
        p = problems[0]
        res.update(verdict="violated", what="%s; distinguishing path: %s" % (p["problem"], str(p.get("path"))[:300]), witness=problems,
                   case={"moves": moves, "rewards": rewards, "loose": loose, "probs": [p_tile, p_robot, p_light], "manual": manual})
    return res


def decide_cli(idx, seed0):
    """The whole user path: roberta_generator.main() with command-line parameters in a scratch directory; the board is
    regenerated with the same gen_rnd_board arguments and the file's games must be bisimilar to ITS rules with the
    probabilities that were passed on the command line."""
    from . import gen_common as gc
    rg = monitors.mods()["roberta_generator"]
    cr = monitors.mods()["conditionalrewards"]
    rng = games.case_rng(seed0, PID, "CLI", idx)
    ks = rng.sample(range(2, 95), 4)
    p = dict(seed=rng.randrange(10 ** 6), width=rng.choice([1, 2, 3, 4]), length=rng.choice([1, 2, 3, 4]), max_reward=rng.choice([1, 6, 20]),
             p_robot=ks[0] / 100, p_light=ks[1] / 100, p_tile=ks[2] / 100, p_loose=rng.choice([.3, .5, .9]), force_down=rng.random() < 0.5)
    argv = gc.gen_argv(p["seed"], p["width"], p["length"], p["p_robot"], p["p_light"], p["p_tile"], p["p_loose"], p["max_reward"], p["force_down"])
    res = {"idx": idx, "verdict": "held", "tags": ["CLI"], "stats": {"boards": 1, "cli_runs": 1}, "key": repr(sorted(p.items())), "nontrivial": True}
    with gc.Scratch() as sc_:
        exc, log, writes = gc.call_main(rg, argv)
        files = sc_.listing()
        if exc is not None or len(files) != 1:
            res.update(verdict="violated", what="generator main() raised %r or did not write one file (%s)" % (exc, files), case={"cli": p, "idx": idx, "seed": seed0})
            return res
        gamesd = cr.read_dict_from_file(files[0])
    moves, rewards, loose = rg.gen_rnd_board(p["seed"], p["length"], p["width"], p["p_loose"], p["max_reward"], p["force_down"])
    problems = []
    for var in "abc":
        model = rm.build_model(moves, rewards, loose, p["p_tile"], p["p_robot"], p["p_light"], var)
        try:
            ok, info = rm.bisimilar(rm.from_game(gamesd["game_" + var]), model)
        except Exception as e:
            ok, info = False, {"path": "game cannot be walked: %r" % e}
        monitors.MON.count("c08.bisimulations")
        res["stats"]["bisimulations"] = res["stats"].get("bisimulations", 0) + 1
        if not ok:
            problems.append({"variant": var, "problem": "game %s written by main() is not bisimilar to the board's rules with the probabilities given on the command line" % var.upper(),
                             "path": info.get("path")})
    if problems:
        res.update(verdict="violated", what="%s; path %s" % (problems[0]["problem"], str(problems[0]["path"])[:300]), witness=problems, case={"cli": p, "idx": idx, "seed": seed0})
    if idx % 30 == 0:
        res["sample"] = {"argv": argv, "bisimilar_ABC": not problems}
    return res


def plan(tier, seed):
    b = harness.split("SMALL", N_SMALL, 900 if tier == "quick" else 900)
    b += harness.split("CLI", 90 if tier == "quick" else 1500, 15 if tier == "quick" else 100)
    b += harness.split("RND", 300 if tier == "quick" else 6000, 20 if tier == "quick" else 200)
    b += harness.split("MANUAL", 100 if tier == "quick" else 1500, 20 if tier == "quick" else 100)
    return b


def run_batch(batch):
    monitors.install()
    cls, seed = batch["cls"], batch["seed"]
    lo, hi = batch["start"], batch["start"] + batch["count"]
    if cls == "SMALL":
        for idx, (L, W, moves, rewards, loose) in enumerate(itertools.islice(small_boards(), lo, hi), lo):
            EMIT_START(idx)
            r = decide_board(idx, cls, moves, rewards, loose, 0.1, 0.2, 0.3)
            if idx % 5000 == 0:
                r["sample"] = {"moves": moves, "rewards": rewards, "loose_tiles": loose, "probabilities": [0.1, 0.2, 0.3], "bisimilar_ABC": r["verdict"] == "held"}
            yield r
        return
    rg = monitors.mods()["roberta_generator"]
    if cls == "CLI":
        for idx in range(lo, hi):
            EMIT_START(idx)
            yield decide_cli(idx, seed)
        return
    for idx in range(lo, hi):
        EMIT_START(idx)
        rng = games.case_rng(seed, PID, cls, idx)
        L, W = rng.choice([1, 1, 2, 3, 4, 5, 6, 8]), rng.choice([1, 1, 2, 3, 4, 5, 6, 8])
        if idx % 20 == 7:
            L, W = rng.choice([(9, 10), (12, 8), (10, 13), (29, 3), (3, 30), (12, 12), (12, 11), (13, 25)])     # more than 85 tiles; two-digit rows and columns
        fd = rng.random() < 0.5
        moves, rewards, loose = rg.gen_rnd_board(rng.randrange(2 ** 31), L, W, rng.choice([.1, .3, .5, .9]), rng.choice([1, 6, 20]), fd)
        if idx % 6 == 1 and L >= 2:
            moves = [list(moves[0]) for _ in range(L)]          # identical rows (decide_board passes them as one shared object)
            if fd and 3 not in moves[0]:
                for r in moves:
                    r[0] = 3
        if idx % 5 == 3:
            # legal non-negative rewards of unusual size or kind: integers no double represents exactly (odd values above 2^53),
            # fractional floats, a mix of ints and floats; the light state of the tile must carry exactly that number
            pool = rng.choice([[2 ** 53 + 1, 10 ** 17 + 3, 10 ** 30, 2 ** 64 - 1, 0, 7], [0.1, 2.5, 1e-9, 3, 0, 1e300], [2 ** 53 + 1, 0.5, 5, 5.0, 10 ** 60, 1]])
            rewards = [[rng.choice(pool) for _ in range(W)] for _ in range(L)]
        if idx % 7 == 4:
            # a board written as a constant: tuples of tuples / ranges (the generator only indexes and iterates the rows)
            moves, rewards, loose = tuple(tuple(r) for r in moves), tuple(tuple(r) for r in rewards), tuple(tuple(r) for r in loose)
        pt, prb, pl = rng.choice(PROBS), rng.choice(PROBS), rng.choice(PROBS)
        if idx % 9 == 5:
            # legal probabilities so small that 1 - p == 1.0 in floating point (the branch still exists)
            pt = rng.choice([1e-17, 5e-324, 2.0 ** -60, 1e-300])
            prb = rng.choice([prb, 1e-17])
        if rng.random() < 0.3:
            pt, prb, pl = rng.uniform(0.001, 0.999), rng.uniform(0.001, 0.999), rng.uniform(0.001, 0.999)
        r = decide_board(idx, cls, moves, rewards, loose, pt, prb, pl, manual=(cls == "MANUAL"))
        if idx % 100 == 0:
            r["sample"] = {"moves": moves, "rewards": rewards, "loose_tiles": loose, "probabilities": [pt, prb, pl], "manual_entry": cls == "MANUAL"}
        yield r


def finish(agg):
    return {"small_boards_enumerated": N_SMALL, "small_boards_run": agg.per_cls.get("SMALL", {})}


def replay(case):
    monitors.install()
    if "cli" in case:
        return decide_cli(case["idx"], case["seed"])
    return decide_board(0, "REPLAY", case["moves"], case["rewards"], case["loose"], *case["probs"], manual=case.get("manual", False))


if __name__ == "__main__":
    sys.exit(harness.main(sys.modules[__name__]))
