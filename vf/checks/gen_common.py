"""Helpers for the generator / CLI side checks (C11, C15, C16, C17): run the real main() functions in-process in a scratch
directory under the file-system recorder M-FS, or as a real subprocess."""
import os
import subprocess
import sys
import tempfile
import shutil
from .. import bootstrap, monitors


class Scratch:
    """Scratch working directory outside /repo and /verif with an inputs/ and outputs/ folder; removed afterwards."""

    def __enter__(self):
        base = None
        if os.environ.get("VERIF_ALT_SCRATCH") == "1" and os.path.isdir("/dev/shm") and os.access("/dev/shm", os.W_OK):
            # a working directory on another filesystem than the default temporary directory
            try:
                if os.stat("/dev/shm").st_dev != os.stat(tempfile.gettempdir()).st_dev:
                    base = "/dev/shm"
            except OSError:
                base = None
        self.dir = tempfile.mkdtemp(prefix="verif-scratch-", dir=base)
        os.makedirs(os.path.join(self.dir, "inputs"))
        os.makedirs(os.path.join(self.dir, "outputs"))
        self.cwd = os.getcwd()
        os.chdir(self.dir)
        return self

    def __exit__(self, *exc):
        os.chdir(self.cwd)
        shutil.rmtree(self.dir, ignore_errors=True)
        return False

    def listing(self):
        out = []
        for root, _, files in os.walk(self.dir):
            for f in files:
                out.append(os.path.relpath(os.path.join(root, f), self.dir))
        return sorted(out)


def call_main(module, argv):
    """Run module.main() with sys.argv patched, under M-FS.  -> (exception or None, fs log, writes).
    SystemExit from argparse is returned as the exception."""
    old = sys.argv
    sys.argv = argv
    exc = None
    with monitors.fs_record() as fs:
        try:
            module.main()
        except BaseException as e:     # noqa
            if isinstance(e, KeyboardInterrupt):
                raise
            exc = e
        finally:
            sys.argv = old
            monitors.MON.metering = False
    return exc, fs.log, fs.writes


def gen_argv(seed=None, width=None, length=None, p_robot=None, p_light=None, p_tile=None, p_loose=None, max_reward=None, force_down=False):
    a = ["roberta_generator.py"]
    for flag, v in (("--seed", seed), ("--width", width), ("--length", length), ("--prob_robot_break", p_robot),
                    ("--prob_light_break", p_light), ("--prob_tile_break", p_tile), ("--prob_loose_tile", p_loose), ("--max_reward", max_reward)):
        if v is not None:
            # --flag=value form: a value such as -inf or -1 must not be mistaken for an option by argparse
            a.append("%s=%s" % (flag, repr(v) if isinstance(v, float) else str(v)))
    if force_down:
        a.append("-f")
    return a


def subprocess_script(script, args, cwd, timeout=300):
    env = dict(os.environ, PYTHONDONTWRITEBYTECODE="1")
    env.pop("PYTHONPATH", None)
    return subprocess.run([bootstrap.PYTHON, "-B", os.path.join(bootstrap.REPO, script)] + args, cwd=cwd, capture_output=True,
                          text=True, timeout=timeout, env=env)
