"""C12 - batch runs solve each game in isolation and report failures (DESIGN 4/C12).

History checker: the dict returned by the real run_games (recorded by M-RUN) is compared, entry by entry, with solo solves of deep
copies computed in a SEPARATE worker process (so state shared inside one interpreter cannot mask a leak)."""
import copy
import itertools
import json
import os
import subprocess
import sys
from .. import bootstrap, harness, monitors, games, analysis
from ..oracle import P1, P2, PR
from . import solver_common as sc
from . import c09

PID = "C12"
LEVEL = "exploration"
RULE = ("dicts of 1-6 named games drawn from pools of solvable (G-ACY/G-CYC/G-DEAD/figure 5.5), unsolvable (initial value 0) and malformed "
        "(G-MAL edits) games; for 3- and 4-game dicts ALL permutations and all subsets (exhaustive per pool), failing game first / middle / "
        "last / several failing, the same dict run twice; batch entries compared field by field with solo solves from a separate process.  "
        "Non-trivial: the dict contains a failing game together with a solvable one, or a game in which pruning removes a transition; "
        "distinct = (pool hash, order).")
RULE += (' FILE class (pool written to a file and run through main -s), names with braces/percent/blanks/empty. THREADS class: the real code called from 3-4 threads of one interpreter (1 us switch interval, yield injection at every ~1000-3000th executed line), each concurrent outcome compared with the sequential outcome of the same process.')
FLOOR = 200
REQUIRED = ["run.calls"]
ASSUMPTIONS = ["names are arbitrary strings (letters, digits, underscores, braces, percent signs, blanks, the empty name) that never end in _no_prune (x and x_no_prune collide by construction of the key scheme)",
               "total_time is excluded from the comparison"]
TIMEOUT = 1800
FIELDS = ["final_strategies", "reachability_strategies", "rewards", "probabilities", "n_iterations_reach", "n_iterations_rew",
          "prob_min_rew", "rew_min_reach", "n_states", "n_transitions", "msg"]


def make_pool(rng, size):
    """-> list of (name, kind, solver-style description)."""
    pool = []
    # names that are prefixes of each other or end in characters of "_no_prune" are legal and hostile to string surgery on keys
    names = ["g%d" % i for i in range(12)] + ["robot_1_a", "Game_B2", "x", "a_b_c_9", "broken", "no_route", "gam", "game_one",
                                               "open", "prune_no", "e", "n_o", "game", "game_o", "run", "u_p", "solo_no_prune", "w_no_prune",
                                               # legal keys that are hostile to text templates and trimming
                                               "G_{5.4}", "{}", "{0}", "pad ", "", "100%s", "a : b", "chain_{n_states}"]
    rng.shuffle(names)
    for i in range(size):
        r = rng.random()
        if r < 0.5:
            cls = rng.choice(["G-ACY", "G-CYC", "G-DEAD", "G-LEX"])
            gd = None
            while gd is None:
                gd = games.gen_class(rng, cls)
                if gd is not None:
                    an = analysis.Analysis(gd)
                    if not (an.stopping and an.finals_absorbing and max(an.tmax) < 50):
                        gd = None
            kind = "unsolvable" if 0 not in an.W else "solvable"
            pool.append((names[i], kind, games.to_solver(gd)))
        elif r < 0.7:
            gd = None
            while gd is None:
                from .c06 import gen_cut
                gd = gen_cut(rng)
                an = analysis.Analysis(gd)
                if not (an.stopping and an.finals_absorbing and max(an.tmax) < 50):
                    gd = None
            kind = "unsolvable" if 0 not in an.W else "solvable"
            pool.append((names[i], kind, games.to_solver(gd)))
        else:
            base = games.to_solver(c09.base_game(rng))
            # only descriptions that can be written down in a file / passed to another process as text
            eds = [e for e in c09.edits(base) if e[0] not in ("container:deque", "container:UserList", "container:iterator")]
            rule, pc, g = rng.choice(eds) if rng.random() > 0.08 else [e for e in eds if e[0] == "empty-game"][0]
            pool.append((names[i], "malformed:" + rule, g))
    # a small game whose distribution is exact as rationals but sums to 1 +- one ulp in doubles (in some listing order)
    if rng.random() < 0.4 and len(pool) < len(names):
        ps = list(rng.choice(games.ULP_OFF))
        rng.shuffle(ps)
        ulp = {"rewards": [1, 2, 3, 4, 0], "players": ["Probabilistic"] * 5,
               "transition_list": [[(float(ps[0]), 1), (float(ps[1]), 2), (float(ps[2]), 3)], [(1, 4)], [(1, 4)], [(1, 4)], [(1, 4)]], "final_states": [4]}
        pool.insert(rng.randrange(len(pool) + 1), (names[len(pool)], "solvable", ulp))
    # a game may carry its own prune_states key (it is a constructor parameter); the batch run must still do both modes
    for i, (n_, k_, g_) in enumerate(pool):
        if not k_.startswith("malformed") and rng.random() < 0.25:
            g2 = dict(g_)
            g2["prune_states"] = rng.choice([True, False])
            pool[i] = (n_, k_, g2)
    # siblings: games that share their structure with another game of the pool (same transition lists but other final
    # states / rewards, or an identical copy under another name) - anything cached across games by structure shows here
    wf = [(n, k, g) for n, k, g in pool if not k.startswith("malformed")]
    if wf and rng.random() < 0.6 and len(pool) < len(names):
        n0, k0, g0 = rng.choice(wf)
        g1 = copy.deepcopy(g0)
        n = len(g1["players"])
        how = rng.choice(["finals", "finals", "rewards", "copy"])
        if how == "finals":
            absorbing = [s for s in range(n) if all(t == s for _, t in g1["transition_list"][s]) and g1["rewards"][s] == 0]
            others = [s for s in absorbing if s not in g1["final_states"]]
            if others:
                g1["final_states"] = [rng.choice(others)]
            elif len(g1["final_states"]) > 1:
                g1["final_states"] = g1["final_states"][:1]
        elif how == "rewards":
            g1["rewards"] = [r if all(t == s for _, t in g1["transition_list"][s]) else r + 1 for s, r in enumerate(g1["rewards"])]
        pool.insert(rng.randrange(len(pool) + 1), (names[len(pool)], "sibling:" + how, g1))
    return pool


def solo_reference(pool):
    """Solve every pool game alone, in both modes, in a separate process. -> {name: {True: entry, False: entry}}"""
    payload = json.dumps(_mark({"pool": [[n, g] for n, _, g in pool]}))
    env = dict(os.environ, PYTHONPATH=bootstrap.VERIF, PYTHONHASHSEED="0")
    p = subprocess.run([bootstrap.PYTHON, "-B", "-m", "vf.checks.c12", "--solo"], input=payload, capture_output=True, text=True,
                       env=env, cwd=bootstrap.VERIF, timeout=600)
    if p.returncode != 0:
        raise RuntimeError("solo reference process failed: " + p.stderr[-500:])
    return json.loads(p.stdout, object_hook=_dec)


def _enc(o):
    if isinstance(o, tuple):
        return {"__t": list(o)}
    return str(o)


class _TupleEncoder(json.JSONEncoder):
    def encode(self, o):
        return super().encode(_mark(o))


def _mark(o):
    if isinstance(o, tuple):
        return {"__t": [_mark(x) for x in o]}
    if isinstance(o, list):
        return [_mark(x) for x in o]
    if isinstance(o, dict):
        return {("%s" % k if not isinstance(k, str) else k) if not isinstance(k, int) else "__i%d" % k: _mark(v) for k, v in o.items()}
    return o


def _dec(d):
    if "__t" in d and len(d) == 1:
        return tuple(d["__t"])
    if any(isinstance(k, str) and k.startswith("__i") for k in d):
        return {(int(k[3:]) if k.startswith("__i") else k): v for k, v in d.items()}
    return d


def solo_main():
    monitors.install()
    tad = monitors.mods()["tad"]
    data = json.loads(sys.stdin.read(), object_hook=_dec)
    out = {}
    for name, g in data["pool"]:
        out[name] = {}
        for prune in (True, False):
            gg = copy.deepcopy(g)
            entry = {"status": None, "err": None, "res": None, "n_states": None, "n_transitions": None}
            try:
                entry["n_states"] = len(gg["players"])
                entry["n_transitions"] = sum(len(t) for t in gg["transition_list"] if hasattr(t, "__len__"))
                sg = tad.StochasticGame(gg["rewards"], gg["players"], gg["transition_list"], gg["final_states"], prune_states=prune)
                with monitors.budget(2 * 10 ** 7):
                    r = sg.solve()
                entry["status"] = "ok"
                entry["res"] = list(r)
            except ValueError as e:
                entry["status"] = "valueerror"
                entry["err"] = str(e)
            except monitors.StepBudgetExceeded:
                entry["status"] = "budget"
            finally:
                monitors.MON.metering = False
            out[name]["p" if prune else "n"] = entry
    sys.stdout.write(json.dumps(_mark(out)))


def expected_entries(name, solo):
    """What run_games must report for this game, from the solo solves."""
    p, n = solo["p"], solo["n"]
    if p["status"] == "budget" or n["status"] == "budget":
        return None
    def solved(e):
        r = e["res"]
        return {"final_strategies": r[0], "reachability_strategies": r[1], "rewards": r[2], "probabilities": r[3],
                "n_iterations_reach": r[4], "n_iterations_rew": r[5], "prob_min_rew": r[6], "rew_min_reach": r[7],
                "n_states": e["n_states"], "n_transitions": e["n_transitions"], "msg": "Game solved"}
    def failed(e, msg):
        return {"final_strategies": None, "reachability_strategies": None, "rewards": None, "probabilities": None,
                "n_iterations_reach": 0, "n_iterations_rew": 0, "prob_min_rew": 0, "rew_min_reach": 0,
                "n_states": e.get("n_states"), "n_transitions": e.get("n_transitions"), "msg": msg}
    if p["status"] == "ok":
        if n["status"] != "ok":
            return None          # unpruned failing where pruned succeeds: outside what the property describes
        return {name: solved(p), name + "_no_prune": solved(n)}
    return {name: failed(p, "Error while solving the game: " + p["err"]), name + "_no_prune": failed(n, "Game not solved")}


def check_batch(order, pool_by_name, solo, twice=False):
    cr = monitors.mods()["conditionalrewards"]
    d = {name: copy.deepcopy(pool_by_name[name][1]) for name in order}
    before = copy.deepcopy(d)
    if twice:
        # the very same dict object is run a second time (it now carries the prune_states keys the first run added)
        try:
            with monitors.budget(8 * 10 ** 6 * max(1, len(order))):
                cr.run_games(d)
        except BaseException:    # noqa - judged on the second run below
            pass
        finally:
            monitors.MON.metering = False
    problems = []
    try:
        with monitors.budget(8 * 10 ** 6 * max(1, len(order))):
            res = cr.run_games(d)
    except monitors.StepBudgetExceeded:
        return None
    except BaseException as e:    # noqa
        if isinstance(e, (KeyboardInterrupt, SystemExit)):
            raise
        return [{"problem": "run_games raised %s: %s" % (type(e).__name__, str(e)[:150])}]
    finally:
        monitors.MON.metering = False
    want_keys = [k for name in order for k in (name, name + "_no_prune")]
    if list(res.keys()) != want_keys:
        problems.append({"problem": "result keys/order differ", "got": list(res.keys()), "expected": want_keys})
    for name in order:
        exp = expected_entries(name, solo[name])
        if exp is None:
            continue
        for key, e in exp.items():
            got = res.get(key)
            if got is None:
                continue
            for f in FIELDS:
                if e[f] is None and f in ("n_states", "n_transitions"):
                    continue
                if got.get(f) != e[f] or type(got.get(f)) != type(e[f]):
                    problems.append({"entry": key, "field": f, "problem": "batch entry differs from solving the game alone",
                                     "got": repr(got.get(f))[:200], "solo": repr(e[f])[:200]})
                    break
    # inputs unchanged except the added prune_states key
    for name in order:
        g = dict(d[name])
        g.pop("prune_states", None)
        b = dict(before[name])
        b.pop("prune_states", None)
        if g != b:
            problems.append({"entry": name, "problem": "input game changed by the batch run"})
    return problems


def decide(idx, seed, tier):
    rng = games.case_rng(seed, PID, "POOL", idx)
    size = 3 if idx % 3 == 0 else (4 if idx % 3 == 1 else rng.randint(1, 6))
    pool = make_pool(rng, size)
    size = len(pool)
    # make sure mixes exist: force at least one solvable and one failing in 3/4-pools
    solo = solo_reference(pool)
    by_name = {n: (k, g) for n, k, g in pool}
    names = [n for n, _, _ in pool]
    kinds = {n: ("failing" if solo[n]["p"]["status"] != "ok" else "solvable") for n in names}
    orders = []
    if size in (3, 4):
        for r in range(1, size + 1):
            for sub in itertools.combinations(names, r):
                orders += [list(p) for p in itertools.permutations(sub)]
    else:
        for _ in range(6):
            sub = rng.sample(names, rng.randint(1, size))
            orders.append(sub)
    if tier == "quick" and len(orders) > 24:
        full = [o for o in orders if len(o) == size]
        orders = full + rng.sample([o for o in orders if len(o) < size], min(8, len(orders) - len(full)))
    res = {"idx": idx, "verdict": "held", "stats": {"dicts": 0, "entries": 0, "pools": 1, "run_twice": 0}, "tags": ["POOL"],
           "key": "%s" % (sorted((n, k) for n, (k, _) in by_name.items()),), "nontrivial": False}
    problems = []
    mix = len(set(kinds.values())) > 1
    res["nontrivial"] = mix
    for o in orders:
        pr = check_batch(o, by_name, solo)
        if pr is None:
            continue
        res["stats"]["dicts"] += 1
        res["stats"]["entries"] += 2 * len(o)
        fpos = [i for i, n in enumerate(o) if kinds[n] == "failing"]
        if fpos and len(fpos) < len(o):
            res["stats"]["mixed_dicts"] = res["stats"].get("mixed_dicts", 0) + 1
        if fpos and len(o) > 1:
            for i in fpos:
                tag = "failing_first" if i == 0 else ("failing_last" if i == len(o) - 1 else "failing_middle")
                res["stats"][tag] = res["stats"].get(tag, 0) + 1
            if len(fpos) > 1:
                res["stats"]["several_failing"] = res["stats"].get("several_failing", 0) + 1
        if pr:
            problems.append({"order": o, "kinds": [kinds[n] for n in o], "problems": pr[:3]})
    if orders:
        o = orders[0]
        pr = check_batch(o, by_name, solo, twice=True)          # same dict object a second time
        res["stats"]["run_twice"] += 1
        if pr:
            problems.append({"order": o, "second_run": True, "problems": pr[:3]})
    res["stats"]["sibling_games"] = sum(1 for n, k, _ in pool if k.startswith("sibling"))
    res["stats"]["malformed_games"] = sum(1 for n, k, _ in pool if k.startswith("malformed"))
    res["stats"]["unsolvable_games"] = sum(1 for n, k, _ in pool if k == "unsolvable")
    if problems:
        p = problems[0]
        res.update(verdict="violated", what="%s (order %s, kinds %s)" % (p["problems"][0]["problem"], p["order"], p.get("kinds")),
                   witness=problems[:3], case={"idx": idx, "seed": seed, "tier": tier, "pool": _mark([(n, k, g) for n, k, g in pool])})
    if idx % 25 == 0:
        res["sample"] = {"names": names, "kinds": kinds, "orders_run": len(orders), "first_order": orders[0] if orders else None}
    return res


def decide_file(idx, seed):
    """The pool as a FILE run through the command line (main -f <file> -s): the saved report must hold, in file order, one pruned and
    one unpruned block for every game - failing games, games after a failing one and games with awkward names included."""
    from . import c16                      # (c16 imports this module at load time)
    rng = games.case_rng(seed, PID, "FILE", idx)
    pool = make_pool(rng, rng.randint(2, 6))
    text = repr({n: g for n, _, g in pool})
    res = {"idx": idx, "verdict": "held", "stats": {"files_run_through_main": 1}, "tags": ["FILE"], "key": "file:%d:%s" % (idx, sorted(n for n, _, _ in pool)),
           "nontrivial": len({k.split(":")[0] for _, k, _ in pool}) > 1}
    pr, st = c16.check_file(text, "pool_%d" % idx, 3 * 10 ** 7)
    if pr is None:
        return {"idx": idx, "verdict": "skipped", "what": "step budget", "tags": ["FILE"]}
    res["stats"]["report_blocks"] = st.get("blocks", 0)
    if st.get("blocks", 0) != 2 * len(pool) and not pr:
        pr = [{"problem": "the report holds %d blocks for %d games" % (st.get("blocks", 0), len(pool))}]
    if pr:
        res.update(verdict="violated", what="batch run through main -s: " + pr[0]["problem"], witness=pr[:3], case={"file": idx, "seed": seed})
    return res


def _plan_base(tier, seed):
    return harness.split("POOL", 320 if tier == "quick" else 4000, 10 if tier == "quick" else 50) + \
        harness.split("FILE", 40 if tier == "quick" else 600, 10 if tier == "quick" else 50)


def finish(agg):
    return {"evaluations": int(agg.stats.get("dicts", 0)), "distinct_nontrivial": int(agg.stats.get("mixed_dicts", 0)),
            "evaluations_note": "evaluations = dicts passed to run_games (each compared entry by entry with solo solves); "
                                "distinct_nontrivial = dicts (pool x order) that mix a failing game with a solvable one; verdicts are per pool"}


def plan(tier, seed):
    from .. import harness as _h
    return _h.split("THREADS", 6 if tier == "quick" else 18, 1) + _plan_base(tier, seed)


def threads_pool(idx, seed):
    """well-formed games (solvable and unsolvable) for the run_games-from-threads class, encoded for the worker process"""
    rng = games.case_rng(seed, PID, "THREADS", idx)
    out = []
    for n, kind, g in make_pool(rng, 6) + make_pool(rng, 6):
        if kind in ("solvable", "unsolvable") or kind.startswith("sibling"):
            out.append({"rewards": g["rewards"], "players": g["players"], "transition_list": [[list(t) for t in tr] for tr in g["transition_list"]],
                        "final_states": list(g["final_states"])})
    return out[:8]


def run_batch(batch):
    if batch["cls"] == "THREADS":
        from . import threads_common
        yield from threads_common.run(batch, PID, None, EMIT_START, "batch", threads_pool)
        return
    monitors.install()
    for idx in range(batch["start"], batch["start"] + batch["count"]):
        EMIT_START(idx)
        if batch["cls"] == "FILE":
            yield decide_file(idx, batch["seed"])
            continue
        yield decide(idx, batch["seed"], batch["tier"])


def replay(case):
    if "threads" in case:
        from . import threads_common
        return threads_common.replay(case, PID, None, "batch", threads_pool)
    monitors.install()
    if "file" in case:
        return decide_file(case["file"], case.get("seed", 0))
    return decide(case["idx"], case["seed"], case.get("tier", "quick"))


if __name__ == "__main__":
    if "--solo" in sys.argv:
        solo_main()
    else:
        sys.exit(harness.main(sys.modules[__name__]))
