"""C15 - random boards are reproducible, in range and honour their parameters (DESIGN 4/C15)."""
import math
import os
import subprocess
import sys
from .. import bootstrap, harness, monitors, games
from . import gen_common as gc

PID = "C15"
LEVEL = "exploration"
DEV = True
RULE = ("gen_rnd_board called for seeds {0..199} u random 31-bit u {2^63}, sizes 1..12 x 1..12 (+1x500, 500x1), max reward {1,2,6,20,60}, "
        "p_loose {.01,.1,.3,.5,.9,.99}, force-down on/off: result validators (shape, integer rewards in range, flags, arrow sets, one down-only "
        "tile per row iff force-down), reproducibility (back-to-back, with unrelated random traffic in between, fresh processes with different "
        "PYTHONHASHSEED), loose-tile frequency in a 6-sigma binomial band over >= 2e5 tiles per p_loose; BOUNDARY ENUMERATION (exhaustive): each "
        "of the eight range checks at {just inside, on the bound, just outside} through the real main() under the file-system recorder and "
        "through a real subprocess.  Non-trivial: boards with >= 2 tiles / every boundary case; distinct = parameter tuple.")
FLOOR = 300
REQUIRED = ["c15.boards", "c15.boundary_cases"]
ASSUMPTIONS = ["frequency verdicts are statistical: 6-sigma band, seeds fixed by VERIF_SEED (deterministic per seed)",
               "random.random() == 0.0 (reward max_reward+1) is not reachable by running seeds and is not claimed",
               "committed inputs/robot_*.py are compared with regenerated boards as an observation only (they predate the current generator)"]
TIMEOUT = 1800
P_LOOSE = [.01, .1, .3, .5, .9, .99]
P_FREQ = P_LOOSE + [.004, .0075, .125, .333, .29, .995]


def validate_board(moves, rewards, loose, length, width, max_reward, fd):
    pr = []
    for nm, mat in (("moves", moves), ("rewards", rewards), ("loose_tiles", loose)):
        if not isinstance(mat, list) or len(mat) != length or any(not isinstance(r, list) or len(r) != width for r in mat):
            pr.append({"problem": "%s is not a %dx%d matrix" % (nm, length, width)})
    if pr:
        return pr
    for i in range(length):
        for j in range(width):
            r = rewards[i][j]
            if type(r) is not int or not (0 <= r <= max_reward):
                pr.append({"problem": "reward is not an integer in 0..max_reward", "value": repr(r), "max_reward": max_reward, "tile": [i, j]})
            if loose[i][j] not in (0, 1) or type(loose[i][j]) is not int:
                pr.append({"problem": "loose flag not 0/1", "value": repr(loose[i][j]), "tile": [i, j]})
            mv = moves[i][j]
            if mv not in ((0, 1, 2, 3) if fd else (0, 1, 2)) or type(mv) is not int:
                pr.append({"problem": "arrow outside the allowed set", "value": repr(mv), "force_down": fd, "tile": [i, j]})
        if fd and 3 not in moves[i]:
            pr.append({"problem": "row without a down-only tile although force-down is set", "row": i})
    return pr[:5]


def board_params(rng, idx):
    if idx < 200:
        seed = idx
    elif idx % 17 == 0:
        seed = 2 ** 63
    else:
        seed = rng.randrange(2 ** 31)
    if idx % 97 == 0:
        length, width = [(1, 500), (500, 1), (3000, 2), (2, 3000)][(idx // 97) % 4]
    else:
        length, width = rng.randint(1, 12), rng.randint(1, 12)
    return seed, length, width, rng.choice(P_LOOSE), rng.choice([1, 2, 6, 20, 60]), rng.random() < 0.5


def decide_board(idx, seed0):
    import random as pyrandom
    rg = monitors.mods()["roberta_generator"]
    rng = games.case_rng(seed0, PID, "BOARD", idx)
    seed, length, width, pl, mr, fd = board_params(rng, idx)
    args = (seed, length, width, pl, mr, fd)
    monitors.MON.count("c15.boards")
    res = {"idx": idx, "verdict": "held", "tags": ["BOARD"], "key": repr(args), "nontrivial": length * width >= 2,
           "stats": {"boards": 1, "tiles": length * width, "force_down_boards": int(fd)}}
    problems = []
    try:
        b1 = rg.gen_rnd_board(*args)
    except BaseException as e:      # noqa
        if isinstance(e, (KeyboardInterrupt, SystemExit)):
            raise
        res.update(verdict="violated", what="gen_rnd_board raised %s for an accepted parameter set %s" % (type(e).__name__, args), case={"board_args": list(args)})
        return res
    problems += validate_board(b1[0], b1[1], b1[2], length, width, mr, fd)
    b2 = rg.gen_rnd_board(*args)
    if b1 != b2:
        problems.append({"problem": "two back-to-back calls with equal arguments returned different boards"})
    # unrelated random traffic in between
    pyrandom.seed(rng.randrange(10 ** 9))
    for _ in range(rng.randint(1, 50)):
        pyrandom.random()
    pyrandom.choices([1, 2, 3], k=3)
    b3 = rg.gen_rnd_board(*args)
    if b1 != b3:
        problems.append({"problem": "board changed after unrelated use of the random module"})
    # a caller may edit the board it got (hand-made variants); the next request for the same seed must not see that
    import copy as _copy
    pristine = _copy.deepcopy(b1)
    b4 = rg.gen_rnd_board(*args)
    try:
        b4[0][0][0] = 7
        b4[1][0].append(99)
        b4[2].append([1] * width)
    except Exception:
        pass
    b5 = rg.gen_rnd_board(*args)
    if (list(b5[0]), list(b5[1]), list(b5[2])) != (pristine[0], pristine[1], pristine[2]):
        problems.append({"problem": "after the caller edited a returned board, the same seed and parameters give a different board"})
    res["stats"]["repro_calls"] = 5
    if idx % 40 == 0:
        # fresh processes, different hash seeds
        outs = []
        for hs in ("1", "12345"):
            code = ("import sys; sys.path.insert(0, %r); import roberta_generator as rg; print(repr(rg.gen_rnd_board(*%r)))" % (bootstrap.REPO, args))
            env = dict(os.environ, PYTHONHASHSEED=hs)
            env.pop("PYTHONPATH", None)
            p = subprocess.run([bootstrap.PYTHON, "-B", "-c", code], capture_output=True, text=True, env=env, timeout=120)
            outs.append(p.stdout.strip())
        res["stats"]["fresh_process_pairs"] = 1
        if outs[0] != outs[1] or outs[0] != repr(b1):
            problems.append({"problem": "board differs between fresh processes / hash seeds", "outs": [o[:200] for o in outs]})
    if problems:
        res.update(verdict="violated", what="%s (args %s)" % (problems[0]["problem"], args), witness=problems[:4], case={"board_args": list(args)})
    if idx % 150 == 0 and length * width <= 12:
        res["sample"] = {"args": list(args), "moves": b1[0], "rewards": b1[1], "loose_tiles": b1[2]}
    return res


def decide_freq(idx, seed0, tier):
    rg = monitors.mods()["roberta_generator"]
    pl = P_FREQ[idx % len(P_FREQ)]
    need = 2 * 10 ** 5 if tier == "quick" else 2 * 10 ** 6
    rng = games.case_rng(seed0, PID, "FREQ", idx)
    tiles = loose = 0
    boards = 0
    while tiles < need:
        L, W = rng.choice([(40, 50), (50, 40), (100, 20), (25, 80)])
        _, _, lt = rg.gen_rnd_board(rng.randrange(2 ** 31), L, W, pl, 6, rng.random() < 0.5)
        tiles += L * W
        loose += sum(sum(r) for r in lt)
        boards += 1
    freq = loose / tiles
    sigma = math.sqrt(pl * (1 - pl) / tiles)
    z = (freq - pl) / sigma
    res = {"idx": idx, "verdict": "held", "tags": ["FREQ", "freq:p=%g" % pl], "key": "freq%g" % pl, "nontrivial": True,
           "stats": {"freq_tiles": tiles, "freq_boards": boards, "max_abs_z": abs(z)},
           "sample": {"p_loose": pl, "tiles": tiles, "observed_frequency": freq, "z": z, "band": "6 sigma = %.5f" % (6 * sigma)}}
    if abs(z) > 6:
        res.update(verdict="violated", what="loose-tile frequency %.5f outside the 6-sigma band around %g (z=%.1f, %d tiles)" % (freq, pl, z, tiles),
                   case={"freq": pl, "idx": idx, "seed": seed0, "tier": tier})
    return res


def boundary_cases():
    base = dict(seed=0, width=2, length=2, p_robot=.1, p_light=.1, p_tile=.1, p_loose=.3, max_reward=6)
    alt = dict(seed=5, width=1, length=3, p_robot=.29, p_light=.9, p_tile=.5, p_loose=.01, max_reward=1)
    cases = []
    for b in (base, alt):
        for val, ok in ((-1, False), (0, True)):
            cases.append((dict(b, seed=val), ok, "seed=%r" % val))
        for nm in ("width", "length", "max_reward"):
            for val, ok in ((-1, False), (0, False), (1, True)):
                cases.append((dict(b, **{nm: val}), ok, "%s=%r" % (nm, val)))
        for nm in ("p_robot", "p_light", "p_tile", "p_loose"):
            for val, ok in ((-0.1, False), (0.0, False), (5e-324, True), (1e-9, True), (1 - 1e-16, True), (1.0, False), (1.5, False),
                            (float("inf"), False), (float("-inf"), False), (float("nan"), False)):
                cases.append((dict(b, **{nm: val}), ok, "%s=%r" % (nm, val)))
    # integers beyond the float range (argparse's type=int has no size limit): still 'negative', still ValueError
    for nm in ("seed", "width", "length", "max_reward"):
        for val in (-2 ** 1024, -10 ** 400, -2 ** 63 - 1):
            cases.append((dict(base, **{nm: val}), False, "%s=-huge(%d bits)" % (nm, val.bit_length())))
    # negative seeds SPELLED as non-integers (argparse's own int conversion refuses them; nothing may be accepted or written)
    for val in ("-0.5", "-1e-9", "-.25", "-1e3", "-0x1"):
        cases.append((dict(base, seed=val), False, "spelled:seed=%s" % val))
    # two parameters out of range at once (a check that combines parameters must still refuse)
    outside = {"seed": [-1, -7], "width": [-1, -2, 0], "length": [-1, -3, 0], "max_reward": [-1, 0],
               "p_robot": [-0.5, 1.0], "p_light": [0.0, 2.0], "p_tile": [-1.0, 1.0], "p_loose": [0.0, 1.5]}
    names = list(outside)
    for i in range(len(names)):
        for j in range(i + 1, len(names)):
            for vi in outside[names[i]]:
                for vj in outside[names[j]]:
                    cases.append((dict(base, **{names[i]: vi, names[j]: vj}), False, "%s=%r,%s=%r" % (names[i], vi, names[j], vj)))
    return cases


BOUNDARY = boundary_cases()


def decide_boundary(idx, via_subprocess):
    rg = monitors.mods()["roberta_generator"]
    p, accepted, label = BOUNDARY[idx]
    monitors.MON.count("c15.boundary_cases")
    res = {"idx": idx, "verdict": "held", "tags": ["BOUND", "bound:" + label.split("=")[0]], "key": "bound:%d:%s:%s" % (idx, label, via_subprocess),
           "nontrivial": True, "stats": {"boundary_cases": 1, "boundary_refused": int(not accepted), "boundary_accepted": int(accepted)}}
    argv = gc.gen_argv(p["seed"], p["width"], p["length"], p["p_robot"], p["p_light"], p["p_tile"], p["p_loose"], p["max_reward"], False)
    problems = []
    with gc.Scratch() as sc_:
        if via_subprocess:
            r = gc.subprocess_script("roberta_generator.py", argv[1:], sc_.dir)
            files = sc_.listing()
            res["stats"]["boundary_subprocess"] = 1
            if accepted:
                if r.returncode != 0 or len(files) != 1:
                    problems.append({"problem": "accepted boundary value refused or no file written", "rc": r.returncode, "files": files, "stderr": r.stderr[-200:]})
            else:
                if r.returncode == 0:
                    problems.append({"problem": "out-of-range parameter accepted (exit status 0)", "files": files})
                if files:
                    problems.append({"problem": "a file was left behind although the parameters are out of range", "files": files})
                if r.returncode != 0 and "ValueError" not in r.stderr and not (label.startswith("spelled:") and "error: argument" in r.stderr):
                    problems.append({"problem": "refused with something other than ValueError", "stderr": r.stderr[-300:]})
        else:
            exc, log, writes = gc.call_main(rg, argv)
            files = sc_.listing()
            if accepted:
                if exc is not None:
                    problems.append({"problem": "accepted boundary value raised %s: %s" % (type(exc).__name__, str(exc)[:100])})
            else:
                if not isinstance(exc, ValueError) and not (label.startswith("spelled:") and isinstance(exc, SystemExit) and exc.code not in (0, None)):
                    problems.append({"problem": "out-of-range parameter not refused with ValueError", "got": repr(exc)[:200], "files": files})
                if writes or files:
                    problems.append({"problem": "something was written/created before the parameters were refused", "writes": writes[:3], "files": files})
    if problems:
        res.update(verdict="violated", what="%s [%s]" % (problems[0]["problem"], label), witness=problems[:3],
                   case={"boundary": idx, "label": label, "subprocess": via_subprocess})
    if idx % 25 == 0:
        res["sample"] = {"boundary": label, "expected": "accepted" if accepted else "ValueError before any write", "argv": argv}
    return res


def decide_main_twice(idx, seed0):
    """The command line run in a directory that already holds a file of the same name (generated with a loose-tile probability that
    rounds to the same whole percent, or with the very same parameters): what is then in the file must be byte for byte what the
    second command writes in an empty directory."""
    rg = monitors.mods()["roberta_generator"]
    rng = games.case_rng(seed0, PID, "MAIN", idx)
    k = rng.randint(2, 97)
    first, second = rng.choice([(k / 100 + 0.0049, k / 100 - 0.0049), (k / 100 - 0.0049, k / 100 + 0.0049), (k / 100 + 0.0049, k / 100 - 0.0049), (k / 100, k / 100)])
    p = dict(seed=rng.randrange(10 ** 6), width=rng.randint(6, 15), length=rng.randint(8, 15), p_robot=.1, p_light=.2, p_tile=.3, max_reward=rng.choice([1, 6, 20]),
             fd=rng.random() < 0.5)
    monitors.MON.count("c15.boards")
    res = {"idx": idx, "verdict": "held", "tags": ["MAIN"], "key": "main:%d" % idx, "nontrivial": first != second, "stats": {"main_twice_cases": 1}}

    def argv(pl):
        return gc.gen_argv(p["seed"], p["width"], p["length"], p["p_robot"], p["p_light"], p["p_tile"], pl, p["max_reward"], p["fd"])
    problems = []
    with gc.Scratch() as a:
        e1, _, _ = gc.call_main(rg, argv(first))
        f1 = a.listing()
        e2, _, _ = gc.call_main(rg, argv(second))
        f2 = a.listing()
        twice = {f: open(f).read() for f in f2}
    with gc.Scratch() as b:
        e3, _, _ = gc.call_main(rg, argv(second))
        alone = {f: open(f).read() for f in b.listing()}
    if e1 or e2 or e3:
        problems.append({"problem": "generator raised", "exc": [repr(e1), repr(e2), repr(e3)]})
    elif f1 != f2 or len(f2) != 1:
        problems.append({"problem": "running the generator again in the same directory did not leave exactly the one file of that name", "files": [f1, f2]})
    elif twice != alone:
        mv, rw, lo = rg.gen_rnd_board(p["seed"], p["length"], p["width"], second, p["max_reward"], p["fd"])
        problems.append({"problem": "the file left by a second run (over an existing file of the same name) is not what the same command writes in an empty directory: "
                                    "the board is not the one its seed and parameters generate", "loose_tiles_expected": lo})
    if problems:
        res.update(verdict="violated", what=problems[0]["problem"], witness=problems[:2], case={"main_twice": idx, "seed": seed0})
    return res


def decide_repo(idx):
    """Observation only: committed inputs whose names encode their parameters vs. the regenerated board."""
    import re
    rg = monitors.mods()["roberta_generator"]
    files = sorted(f for f in os.listdir(os.path.join(bootstrap.REPO, "inputs")) if re.match(r"robot_\d+_w", f))
    if idx >= len(files):
        return {"idx": idx, "verdict": "skipped"}
    f = files[idx]
    m = re.match(r"robot_(\d+)_w(\d+)_l(\d+)_r(\d+)_rb(\d+)_lb(\d+)_tb(\d+)_lt(\d+)(_force_down)?\.py$", f)
    st = {"committed_files": 1}
    if m:
        seed, w, l, r, rb, lb, tb, lt = map(int, m.groups()[:8])
        fd = bool(m.group(9))
        try:
            head = open(os.path.join(bootstrap.REPO, "inputs", f)).read().split("\n\n")[0]
            if 0 < lt < 100:
                mv, rw, lo = rg.gen_rnd_board(seed, l, w, lt / 100, r, fd)
                import io
                buf = io.StringIO()
                rg.write_preamble(buf, l, w, mv, rw, lo)
                same = buf.getvalue().split("\n\n")[0] == head
                st["committed_regenerate_identically" if same else "committed_differ"] = 1
            else:
                st["committed_unregenerable_lt"] = 1
        except Exception:
            st["committed_unparseable"] = 1
    return {"idx": idx, "verdict": "skipped", "what": "observation only", "stats": st, "tags": ["REPO-OBS"]}


def plan(tier, seed):
    q = tier == "quick"
    b = harness.split("BOARD", 600 if q else 6000, 40 if q else 200)
    b += harness.split("FREQ", len(P_FREQ) if q else 2 * len(P_FREQ), 1)
    b += harness.split("BOUND", len(BOUNDARY), 24)
    b += harness.split("BOUNDSUB", len(BOUNDARY), 24, stride=1 if not q else 9)
    b += harness.split("REPO", 25, 25)
    b += harness.split("MAIN", 60 if q else 600, 20 if q else 100)
    return b


def run_batch(batch):
    monitors.install(step_meter=False)
    cls = batch["cls"]
    for idx in range(batch["start"], batch["start"] + batch["count"]):
        EMIT_START(idx)
        if cls == "BOARD":
            yield decide_board(idx, batch["seed"])
        elif cls == "FREQ":
            yield decide_freq(idx, batch["seed"], batch["tier"])
        elif cls == "BOUND":
            yield decide_boundary(idx, False)
        elif cls == "BOUNDSUB":
            if idx % batch.get("stride", 1) == 0:
                yield decide_boundary(idx, True)
        elif cls == "MAIN":
            yield decide_main_twice(idx, batch["seed"])
        elif cls == "REPO":
            yield decide_repo(idx)


def finish(agg):
    return {"boundary_cases_enumerated": len(BOUNDARY)}


def replay(case):
    monitors.install(step_meter=False)
    if "boundary" in case:
        return decide_boundary(case["boundary"], case.get("subprocess", False))
    if "main_twice" in case:
        return decide_main_twice(case["main_twice"], case.get("seed", 0))
    if "board_args" in case:
        rg = monitors.mods()["roberta_generator"]
        a = case["board_args"]
        b1 = rg.gen_rnd_board(*a)
        pr = validate_board(b1[0], b1[1], b1[2], a[1], a[2], a[4], a[5])
        if rg.gen_rnd_board(*a) != b1:
            pr.append({"problem": "not reproducible"})
        return {"verdict": "violated" if pr else "held", "what": pr[0]["problem"] if pr else None, "case": case}
    if "freq" in case:
        return decide_freq(case["idx"], case.get("seed", 0), case.get("tier", "quick"))
    return {"verdict": "inconclusive", "what": "unknown case"}


if __name__ == "__main__":
    sys.exit(harness.main(sys.modules[__name__]))
