"""C11 - every accepted parameter set yields a loadable, proper three-game file (DESIGN 4/C11)."""
import os
import sys
from .. import bootstrap, harness, monitors, games
from ..oracle import PR
from . import gen_common as gc, boards_common

PID = "C11"
LEVEL = "exploration"
DEV = True
RULE = ("accepted parameter sets (grid u random: seed {0,1,47,2^31,random}, width/length {1,2,3,5,8} (+10x5..40x10, 3x200, 1x400, 200x1 in the "
        "thorough tier), max reward {1,6,30}, each probability from {1e-9,1e-6,.01,.1,.29,.5,.9,.99,1-1e-9}, force-down on/off) passed to the "
        "real roberta_generator.main() in a scratch directory under the file-system recorder, plus manual boards through create_sg_from_board "
        "and a sample through a real subprocess; the file is read back with read_dict_from_file, validated structurally, and each game is run "
        "through run_games under the step budget.  Non-trivial: every parameter set is a distinct configuration; counted non-trivial when the "
        "board has >= 2 tiles; distinct = parameter tuple.")
FLOOR = 100
REQUIRED = ["c11.files", "run.calls"]
ASSUMPTIONS = ["games with a break probability outside [0.01, 0.9] are validated structurally but not solved (legitimately slow convergence is not a verdict)",
               "a solve that overruns its step budget is a violation only if the sweep diagnosis shows an unlisted mechanism; the listed mechanism is "
               "aux-min-reach-reward-diverges (main quantities quiet, 'rewards under minimal reachability' growing by a constant per sweep)"]
TIMEOUT = 1800
SIZES_Q = [(1, 1), (1, 2), (2, 1), (2, 2), (3, 3), (1, 5), (5, 1), (2, 3), (3, 2), (5, 5), (3, 8), (8, 3), (8, 8), (5, 2), (1, 8), (8, 1), (250, 1)]
SIZES_T = SIZES_Q + [(10, 5), (5, 10), (20, 10), (10, 40), (200, 3), (400, 1), (1, 200), (12, 12), (30, 2)]
P_ALL = [1e-9, 1e-6, .01, .1, .29, .5, .9, .99, 1 - 1e-9]
P_SOLVE = [.01, .1, .29, .5, .9]


def param_set(rng, idx, tier):
    if tier == "quick":
        length, width = SIZES_Q[idx % len(SIZES_Q)]
    else:
        # the big and tall boards (minutes per solve) appear twice each, everything else cycles through the small shapes
        big = SIZES_T[len(SIZES_Q):]
        length, width = big[idx // 2] if idx < 2 * len(big) else SIZES_Q[idx % len(SIZES_Q)]
    seed = rng.choice([0, 1, 47, 2 ** 31, rng.randrange(2 ** 31)])
    mr = rng.choice([1, 6, 30])
    solve = idx % 3 != 2
    pool = P_SOLVE if solve else P_ALL
    p = {"seed": seed, "width": width, "length": length, "max_reward": mr, "p_robot": rng.choice(pool), "p_light": rng.choice(pool),
         "p_tile": rng.choice(pool), "p_loose": rng.choice(P_ALL), "force_down": rng.random() < 0.5}
    if tier == "quick" and length >= 200:
        # tall board in the quick tier: deep backward search is exercised through games A/B (fast 'no solution' on a
        # one-column board without down-only tiles); the slow solve of game C is left to the thorough tier
        p["force_down"] = False
        for k in ("p_robot", "p_light", "p_tile"):
            p[k] = 0.1
        solve = True
    return p, solve


def validate_structure(gamesd):
    tad = monitors.mods()["tad"]
    problems = []
    if list(gamesd.keys()) != ["game_a", "game_b", "game_c"]:
        problems.append({"problem": "file does not load into exactly game_a, game_b, game_c", "keys": list(gamesd.keys())})
        return problems, {}
    st = {"states": 0, "transitions": 0}
    for name, g in gamesd.items():
        if sorted(g.keys()) != ["final_states", "players", "rewards", "transition_list"]:
            problems.append({"game": name, "problem": "unexpected keys", "keys": sorted(g.keys())})
            continue
        n = len(g["players"])
        st["states"] += n
        st["transitions"] += sum(len(t) for t in g["transition_list"])
        try:
            sg = tad.StochasticGame(**g)
            sg.check_game()
            sg.init_states()
        except Exception as e:
            problems.append({"game": name, "problem": "fails the solver's validation: %s %s" % (type(e).__name__, str(e)[:100])})
            continue
        for s, tr in enumerate(g["transition_list"]):
            if not tr:
                problems.append({"game": name, "state": s, "problem": "state without transition"})
            elif g["players"][s] == PR:
                ps = [p for p, _ in tr]
                if any(not (p > 0) for p in ps):
                    problems.append({"game": name, "state": s, "problem": "probability not positive", "probs": ps})
                if abs(sum(ps) - 1) > 1e-12:
                    problems.append({"game": name, "state": s, "problem": "probabilities do not sum to 1", "probs": ps})
        # by structure, not by position: exactly one final state, absorbing; exactly one other absorbing state (the losing one)
        fs = g["final_states"]
        absorbing = [s for s, tr in enumerate(g["transition_list"]) if tr and all(t == s for _, t in tr)]
        if len(fs) != 1:
            problems.append({"game": name, "problem": "not exactly one final state", "final_states": fs})
        elif fs[0] not in absorbing:
            problems.append({"game": name, "problem": "winning state not absorbing"})
        losing = [s for s in absorbing if s not in fs]
        if len(losing) != 1:
            problems.append({"game": name, "problem": "there is not exactly one absorbing losing state", "absorbing_non_final": losing[:5]})
        elif g["rewards"][losing[0]] != 0 or (fs and g["rewards"][fs[0]] != 0):
            problems.append({"game": name, "problem": "winning / losing state carries a reward"})
    return problems, st


def solve_game_via_run_games(name, game):
    """-> (kind, detail): solved | nosol | known | violated | slow"""
    cr = monitors.mods()["conditionalrewards"]
    n = len(game["players"])
    m = sum(len(t) for t in game["transition_list"])
    last = None
    for sweeps in (250, 4000):
        try:
            with monitors.budget(boards_common.board_limit(n, m, sweeps) * 2):
                rr = cr.run_games({name: boards_common.fresh(game)})
        except monitors.StepBudgetExceeded as e:
            last = e
            d = e.diag or {}
            if d.get("phase") == "total_rewards" and d.get("main_quiet") and d.get("reach_min_rew_quiet") and d.get("aux_constant_growth"):
                return "known", d
            continue
        except BaseException as e:   # noqa
            if isinstance(e, (KeyboardInterrupt, SystemExit)):
                raise
            return "violated", {"problem": "run_games raised %s: %s" % (type(e).__name__, str(e)[:200])}
        finally:
            monitors.MON.metering = False
        a, b = rr[name], rr[name + "_no_prune"]
        if a["msg"] == "Game solved" and b["msg"] == "Game solved":
            return "solved", {"sweeps": max(a["n_iterations_rew"], b["n_iterations_rew"], a["n_iterations_reach"])}
        if a["msg"] != "Game solved" and a["rewards"] is None and b["rewards"] is None and b["msg"] != "Game solved":
            # reported as having no solution (whatever the wording of the message)
            from .. import oracle as _o
            og = _o.Game(game["players"], game["transition_list"], game["final_states"], [0] * n)
            # C11 only asks that the game is "solved or reported as having no solution"; whether that report is right is C06's
            # business (open finding sub-tolerance-positive-value).  Recorded as an observation.
            positive = 0 in _o.positive_set(og)
            if positive:
                # a report of 'no solution' (or any other failure message - the wording is not relied upon) for a game whose initial
                # value is far above anything the convergence tolerance could hide is neither 'solved' nor 'has no solution'
                try:
                    from .. import bigoracle
                    v0 = float(bigoracle.reach_values(bigoracle.BigGame(game))["v"][0])
                except Exception:
                    v0 = None
                if v0 is not None and v0 > 1e-3:
                    return "violated", {"problem": "game is neither solved nor without solution: the batch entry carries a failure message although "
                                                   "the initial state's reachability value is %.6g" % v0, "msg": str(a["msg"])[:200]}
            return "nosol", {"positive_value": positive}
        return "violated", {"problem": "unexpected batch entry", "msgs": [a["msg"], b["msg"]]}
    d = (last.diag or {}) if last else {}
    if d.get("phase") == "total_rewards" and not d.get("main_quiet"):
        # main rewards still moving after 4000 sweeps: divergence of the primary quantity or very slow convergence
        if d.get("max_expected_rewards", 0) > 1e7:
            return "violated", {"problem": "total-reward iteration diverges (expected rewards above 1e7 after 4000 sweeps)", "diag": d}
    return "slow", d


def decide(idx, seed, tier, cls, given=None):
    rg = monitors.mods()["roberta_generator"]
    cr = monitors.mods()["conditionalrewards"]
    mb = monitors.mods()["manual"]
    rng = games.case_rng(seed, PID, cls, idx)
    res = {"idx": idx, "verdict": "held", "stats": {}, "tags": [cls], "nontrivial": True}
    problems, known = [], []
    with gc.Scratch() as sc_:
        if cls == "PARAM" or cls == "SUBPROC":
            p, solve = param_set(rng, idx, tier)
            if given is not None:
                p, solve = given["params"], all(0.01 <= given["params"][k] <= 0.9 for k in ("p_robot", "p_light", "p_tile"))
            res["key"] = repr(sorted(p.items()))
            res["nontrivial"] = p["width"] * p["length"] >= 2
            argv = gc.gen_argv(p["seed"], p["width"], p["length"], p["p_robot"], p["p_light"], p["p_tile"], p["p_loose"], p["max_reward"], p["force_down"])
            case = {"params": p, "cls": cls}
            if cls == "SUBPROC":
                r = gc.subprocess_script("roberta_generator.py", argv[1:], sc_.dir)
                res["stats"]["subprocess_runs"] = 1
                if r.returncode != 0:
                    problems.append({"problem": "generator subprocess exited %d" % r.returncode, "stderr": r.stderr[-300:]})
                writes = [os.path.join(sc_.dir, f) for f in sc_.listing()]
            else:
                if idx % 3 == 0 and given is None or (given is not None and given.get("rerun")):
                    # an earlier run whose parameters differ only beyond the whole percent shown in the name (or the same run
                    # repeated) has already left a file of that name behind
                    q = dict(p)
                    for kk in ("p_robot", "p_light", "p_tile"):
                        if 0.01 <= q[kk] <= 0.9:
                            q[kk] = q[kk] + 0.004
                    gc.call_main(rg, gc.gen_argv(q["seed"], q["width"], q["length"], q["p_robot"], q["p_light"], q["p_tile"], q["p_loose"], q["max_reward"], q["force_down"]))
                    res["stats"]["reruns_over_existing_file"] = 1
                    case["rerun"] = True
                    try:
                        for f0 in sc_.listing():
                            cr.read_dict_from_file(f0)
                    except Exception:
                        pass
                exc, log, writes = gc.call_main(rg, argv)
                if exc is not None:
                    problems.append({"problem": "generator raised %s: %s" % (type(exc).__name__, str(exc)[:200])})
        else:
            # manual boards
            kind = idx % 4
            W = rng.choice([1, 2, 3, 4]); L = rng.choice([1, 2, 3])
            if kind == 0:
                moves = [[3] * W for _ in range(L)]
            elif kind == 1:
                moves = [[rng.choice([0, 1, 2]) for _ in range(W)] for _ in range(L)]
            elif kind == 2:
                moves, L, W = [[rng.choice([0, 1, 2, 3])]], 1, 1
            else:
                moves = [[rng.choice([0, 1, 2, 3]) for _ in range(W)] for _ in range(L)]
            loose = [[1 if kind == 1 else rng.choice([0, 1]) for _ in range(W)] for _ in range(L)]
            rewards = [[rng.randint(0, 6) for _ in range(W)] for _ in range(L)]
            if idx % 5 == 3:
                rewards = [[rng.choice([0, 2.0, 2.5, 0.25]) for _ in range(W)] for _ in range(L)]     # hand-made boards may carry floats
            pr, pl, pt = rng.choice(P_SOLVE), rng.choice(P_SOLVE), rng.choice(P_SOLVE)
            solve = True
            if idx % 3 == 2:
                # a board written as a constant: tuples of tuples (the entry point only indexes and iterates the rows)
                moves, rewards, loose = tuple(tuple(r) for r in moves), tuple(tuple(r) for r in rewards), tuple(tuple(r) for r in loose)
                res["stats"]["manual_tuple_boards"] = 1
            if given is not None:
                moves, rewards, loose, pr, pl, pt = given["manual"]
                if given.get("tuples"):
                    moves, rewards, loose = tuple(tuple(r) for r in moves), tuple(tuple(r) for r in rewards), tuple(tuple(r) for r in loose)
            res["key"] = repr((moves, loose, rewards, pr, pl, pt))
            case = {"manual": [moves, rewards, loose, pr, pl, pt], "cls": cls, "tuples": isinstance(moves, tuple)}
            import copy as _copy
            board_before = _copy.deepcopy((moves, rewards, loose))
            if idx % 2 == 1:
                # the same board objects used for an earlier call (e.g. one board swept over several probabilities)
                try:
                    mb.create_sg_from_board(moves=moves, rewards=rewards, loose_tiles=loose, prob_robot_break=min(pr + 0.2, 0.95),
                                            prob_light_break=pl, prob_tile_break=pt)
                    for f0 in sc_.listing():
                        cr.read_dict_from_file(f0)
                        os.remove(os.path.join(sc_.dir, f0))
                except Exception:
                    pass
                res["stats"]["manual_second_call_same_board"] = 1
            with monitors.fs_record() as fs:
                try:
                    mb.create_sg_from_board(moves=moves, rewards=rewards, loose_tiles=loose, prob_robot_break=pr, prob_light_break=pl, prob_tile_break=pt)
                    exc = None
                except Exception as e:
                    exc = e
            if (moves, rewards, loose) != board_before:
                problems.append({"problem": "the manual entry point changed the board lists it was given", "before": board_before, "after": [moves, rewards, loose]})
            writes = fs.writes
            if exc is not None:
                problems.append({"problem": "manual entry point raised %s: %s" % (type(exc).__name__, str(exc)[:200])})
        files = sc_.listing()
        if not problems:
            if len(files) != 1 or not files[0].startswith("inputs" + os.sep):
                problems.append({"problem": "expected exactly one file under inputs/", "files": files})
            if cls != "SUBPROC" and len(set(writes)) != 1:
                problems.append({"problem": "file-system recorder saw %d files opened for writing" % len(set(writes)), "writes": writes[:5]})
        if not problems:
            monitors.MON.count("c11.files")
            res["stats"]["files_written"] = 1
            try:
                gamesd = cr.read_dict_from_file(files[0])          # relative path, as a user in that directory would give it
            except Exception as e:
                gamesd = None
                problems.append({"problem": "the solver's reader cannot load the file: %s %s" % (type(e).__name__, str(e)[:150])})
            if gamesd is not None:
                import ast
                from . import c16
                try:
                    want = c16.denote(ast.parse(open(files[0]).read(), mode="eval"))
                    if not c16.same_struct(gamesd, want):
                        problems.append({"problem": "the reader returned other games than the ones the file on disk denotes (stale or altered content)"})
                except Exception as e:
                    problems.append({"problem": "the generated file is not a literal dictionary: %r" % e})
            if gamesd is not None:
                pr_, st = validate_structure(gamesd)
                problems += pr_
                res["stats"]["states_validated"] = st.get("states", 0)
                res["stats"]["transitions_validated"] = st.get("transitions", 0)
                res["stats"]["max_states"] = max([len(g["players"]) for g in gamesd.values()] or [0])
                if not pr_ and solve:
                    for name, g in gamesd.items():
                        n = len(g["players"])
                        if tier == "quick" and n > 2000:
                            res["stats"]["solve_skipped_size"] = res["stats"].get("solve_skipped_size", 0) + 1
                            continue
                        kind_, d = solve_game_via_run_games(name, g)
                        res["stats"]["%s_%s" % (name, kind_)] = res["stats"].get("%s_%s" % (name, kind_), 0) + 1
                        if kind_ == "nosol" and d.get("positive_value"):
                            res["stats"]["nosol_reported_for_positive_value_observation"] = res["stats"].get("nosol_reported_for_positive_value_observation", 0) + 1
                        if kind_ == "solved":
                            res["stats"]["max_solved_states"] = max(res["stats"].get("max_solved_states", 0), n)
                        elif kind_ == "known":
                            known.append({"game": name, "diag": d})
                        elif kind_ == "violated":
                            problems.append(dict(d, game=name))
                        elif kind_ == "slow":
                            res["stats"]["slow_inconclusive"] = res["stats"].get("slow_inconclusive", 0) + 1
                elif not solve:
                    res["stats"]["structure_only"] = 1
    if problems:
        p0 = problems[0]
        res.update(verdict="violated", what="%s %s" % (p0["problem"], p0.get("game", "")), witness=problems[:4], case=case)
    elif known:
        res.update(verdict="known", finding="aux-min-reach-reward-diverges",
                   what="%s of %s never returns: %s" % (known[0]["game"], case, {k: known[0]["diag"].get(k) for k in ("first", "last")}), witness=known[:2], case=case)
    if idx % 40 == 0:
        res["sample"] = case
    return res


EDGE_VALUES = [0.0, 1.0, 1.5, -0.1, 2.0]


def decide_edge(idx, seed):
    """Parameter sets with ONE probability on or outside the documented bounds: the generator either refuses them (ValueError, C15)
    or - if it accepts - the file it writes must satisfy everything C11 promises for accepted parameter sets."""
    rg = monitors.mods()["roberta_generator"]
    cr = monitors.mods()["conditionalrewards"]
    names = ["p_robot", "p_light", "p_tile", "p_loose"]
    nm = names[idx % 4]
    val = EDGE_VALUES[(idx // 4) % len(EDGE_VALUES)]
    p = {"seed": 5 + idx, "width": 2, "length": 2, "max_reward": 6, "p_robot": .1, "p_light": .1, "p_tile": .1, "p_loose": .9, "force_down": False}
    p[nm] = val
    res = {"idx": idx, "verdict": "held", "stats": {"edge_parameter_sets": 1}, "tags": ["EDGE"], "nontrivial": True, "key": "edge:%s=%r" % (nm, val)}
    with gc.Scratch() as sc_:
        exc, log, writes = gc.call_main(rg, gc.gen_argv(p["seed"], p["width"], p["length"], p["p_robot"], p["p_light"], p["p_tile"], p["p_loose"], p["max_reward"], False))
        if exc is not None:
            res["stats"]["edge_refused"] = 1
            return res                       # refused: nothing to check here
        res["stats"]["edge_accepted"] = 1
        files = sc_.listing()
        problems = []
        if len(files) != 1:
            problems.append({"problem": "accepted parameter set did not produce exactly one file", "files": files})
        else:
            try:
                pr_, st = validate_structure(cr.read_dict_from_file(files[0]))
                problems += pr_
            except Exception as e:
                problems.append({"problem": "the solver's reader cannot load the file: %r" % e})
    if problems:
        res.update(verdict="violated", what="%s accepted with %s=%r: %s %s" % ("parameter set", nm, val, problems[0]["problem"], problems[0].get("game", "")),
                   witness=problems[:3], case={"edge": idx})
    return res


def decide_slow(idx, seed):
    """Tiny boards with a break probability very close to 1: value iteration legitimately needs 1e5+ sweeps; the games must
    still end up solved (or reported unsolvable), not reported with some other error."""
    rg = monitors.mods()["roberta_generator"]
    cr = monitors.mods()["conditionalrewards"]
    tad = monitors.mods()["tad"]
    pval = [0.99992, 0.99988, 0.99993][idx % 3]
    which = ["p_robot", "p_light"][idx % 2]
    p = {"seed": idx, "width": 1, "length": 1 + idx % 2, "max_reward": 2, "p_robot": .1, "p_light": .1, "p_tile": .1, "p_loose": .3, "force_down": idx % 2 == 0}
    p[which] = pval
    res = {"idx": idx, "verdict": "held", "stats": {"slow_parameter_sets": 1}, "tags": ["SLOWP"], "nontrivial": True, "key": "slow:%s=%r:%d" % (which, pval, idx)}
    problems = []
    with gc.Scratch() as sc_:
        exc, log, writes = gc.call_main(rg, gc.gen_argv(p["seed"], p["width"], p["length"], p["p_robot"], p["p_light"], p["p_tile"], p["p_loose"], p["max_reward"], p["force_down"]))
        if exc is not None:
            res.update(verdict="violated", what="generator raised %r" % exc, case={"slow": idx})
            return res
        gamesd = cr.read_dict_from_file(sc_.listing()[0])
    for name, g in gamesd.items():
        n = len(g["players"]); m = sum(len(t) for t in g["transition_list"])
        try:
            with monitors.budget(int(3e6 * 3 * (n + m))):
                rr = cr.run_games({name: boards_common.fresh(g)})
        except monitors.StepBudgetExceeded as e:
            d = e.diag or {}
            if d.get("phase") == "total_rewards" and d.get("main_quiet") and d.get("reach_min_rew_quiet") and d.get("aux_constant_growth"):
                res["stats"]["slow_known_divergence"] = res["stats"].get("slow_known_divergence", 0) + 1
            else:
                res["stats"]["slow_budget_inconclusive"] = res["stats"].get("slow_budget_inconclusive", 0) + 1
            continue
        finally:
            monitors.MON.metering = False
        a, b = rr[name], rr[name + "_no_prune"]
        res["stats"]["max_sweeps"] = max(res["stats"].get("max_sweeps", 0), a["n_iterations_rew"], a["n_iterations_reach"], b["n_iterations_rew"])
        if a["msg"] == "Game solved" and b["msg"] == "Game solved":
            res["stats"]["slow_solved"] = res["stats"].get("slow_solved", 0) + 1
            continue
        # reported as not solved: legitimate if the initial state cannot reach the winning state against the light at all (exact graph
        # criterion) or, by the solver's own criterion, if an unpruned solve reports exactly 0 for the initial state
        from .. import oracle as _o
        og = _o.Game(g["players"], g["transition_list"], g["final_states"], [0] * n)
        if 0 not in _o.positive_set(og):
            res["stats"]["slow_nosol"] = res["stats"].get("slow_nosol", 0) + 1
            continue
        out = monitors.observed_solve(boards_common.fresh(g), False, int(3e6 * 3 * (n + m)))
        if out.status == "ok" and out.result[3][0] == 0:
            res["stats"]["slow_nosol"] = res["stats"].get("slow_nosol", 0) + 1
        elif boards_common.is_d8(out):
            res["stats"]["slow_known_divergence"] = res["stats"].get("slow_known_divergence", 0) + 1
        else:
            problems.append({"game": name, "problem": "game reported as not solved although it is neither solved nor without solution by the solver's own criterion",
                             "msgs": [a["msg"], b["msg"]], "unpruned_solve": out.brief()})
    if problems:
        res.update(verdict="violated", what="%s (%s) %s" % (problems[0]["problem"], problems[0]["game"], problems[0]["msgs"][0][:120]), witness=problems[:3], case={"slow": idx})
    return res


def plan(tier, seed):
    q = tier == "quick"
    b = harness.split("PARAM", 96 if q else 1500, 4 if q else 6)
    b += harness.split("MANUAL", 40 if q else 600, 10 if q else 50)
    b += harness.split("SUBPROC", 8 if q else 60, 4 if q else 10)
    # the generator writes its file with the locale's encoding: part of the parameter sets run under the C locale (ASCII)
    for i, bb in enumerate(b):
        if i % 6 == 4:
            bb["env"] = {"LC_ALL": "C", "LANG": "C", "PYTHONUTF8": "0", "PYTHONCOERCECLOCALE": "0", "VERIF_ALT_SCRATCH": "1"}
    b += harness.split("EDGE", 4 * len(EDGE_VALUES), 10)
    b += harness.split("SLOWP", 1 if q else 6, 1)
    return b


def run_batch(batch):
    monitors.install()
    monitors.MON.flags.update(alias=False, prune=False)
    for idx in range(batch["start"], batch["start"] + batch["count"]):
        EMIT_START(idx)
        if batch["cls"] == "EDGE":
            yield decide_edge(idx, batch["seed"])
        elif batch["cls"] == "SLOWP":
            yield decide_slow(idx, batch["seed"])
        else:
            yield decide(idx, batch["seed"], batch["tier"], batch["cls"])


def replay(case):
    monitors.install()
    monitors.MON.flags.update(alias=False, prune=False)
    if "edge" in case:
        return decide_edge(case["edge"], 0)
    if "slow" in case:
        return decide_slow(case["slow"], 0)
    return decide(0, 0, "thorough", case.get("cls", "PARAM"), given=case)


if __name__ == "__main__":
    sys.exit(harness.main(sys.modules[__name__]))
