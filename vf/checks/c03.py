"""C03 - conditioning removes every dead branch, and only dead branches (DESIGN 4/C03).

Deciding oracle: monitor M-PRUNE - an invariant evaluated at the exit of the real Solver.prune_stochastich_game on the
live state list (entry snapshot taken at solve_reachability, strategies captured at prune_reachability)."""
import itertools
import sys
from .. import harness, monitors, games, analysis
from ..oracle import P1, P2, PR
from . import solver_common as sc

PID = "C03"
LEVEL = "exploration"
RULE = ("ENUMERATED: for transition-list length L=1..5 all 2^L live/dead patterns for a Player-1 and for a probabilistic state "
        "(124 patterns), each embedded in random contexts (dead targets: sinks, Player-2 traps, rewarded dead loops, dead Player-1 "
        "states, dead chains; live targets with distinct or tied values; random numbering); plus random games of the other classes. "
        "The invariant is evaluated by M-PRUNE at the exit of the real pruning step.  Non-trivial: the pruning step removed at least "
        "one transition; distinct = game hash.  exhaustive refers to the pattern sub-space only.")
RULE += (' Also (rounds 5-6): G-GAP/G-GAPLOOP (values 1e-9..1e-4 apart around the 6-digit resolution), G-CORR, G-BIGR, G-DIGIT (digit-only / ambiguous action names), G-RETRY (cycles through state 0), G-FINREP (final states listed repeatedly, as list or tuple); a seventh of the solves pass the pruning flag as the int 1/0; an eighth of the batches each run with the root logger at DEBUG, under python -O, and with warnings raised on behalf of the repository turned into errors. THREADS class: the real code called from 3-4 threads of one interpreter (1 us switch interval, yield injection at every ~1000-3000th executed line), each concurrent outcome compared with the sequential outcome of the same process.')
FLOOR = 500
REQUIRED = ["prune.exits", "prune.removed"]
EXHAUSTIVE = True
ASSUMPTIONS = ["uses the solver's own reported reachability probabilities, as the statement does",
               "unreachable non-Player-1 states may be blanked or not: both accepted"]
TIMEOUT = 1800

PATTERNS = [(kind, pat) for kind in (PR, P1) for L in range(1, 6) for pat in itertools.product([True, False], repeat=L)]
TABLE = [("G-CYC", 300), ("G-ACY", 300), ("G-LEX", 150), ("G-TIE", 100), ("G-SLOW", 60), ("G-TINYB", 400), ("G-ACYNF", 200), ("G-CYCNF", 200), ("G-INIT0NF", 100), ("G-DUPL", 200), ("G-MIX", 500), ("G-SMALLX", 300), ("G-TINY", 200), ("G-GAP", 150), ("G-GAPLOOP", 150), ("G-DIGIT", 200), ("G-FINREP", 200)]


def _plan_base(tier, seed):
    ctx = 20 if tier == "quick" else 250
    b = harness.split("G-DEADPAT", len(PATTERNS) * ctx, 124 if tier == "quick" else 1240, ctx=ctx)
    b += harness.split("G-DEADZERO", 62 * (4 if tier == "quick" else 40), 124)
    return b + sc.plan_classes(tier, TABLE) + [{"cls": "REPOTESTS", "start": 0, "count": 1}]


def decide_repo_tests():
    """The repository's own 57 tests, run in this process with the monitors attached: every solve() a hand-built fixture
    goes through is one more observed execution of the pruning step."""
    import contextlib
    import io
    import os
    import pytest
    from .. import bootstrap
    MON = monitors.MON
    MON.drain("prune"); MON.drain("rev"); MON.drain("alias")
    before = dict(MON.counters)
    buf = io.StringIO()
    cwd = os.getcwd()
    os.chdir(bootstrap.REPO)
    try:
        with contextlib.redirect_stdout(buf), contextlib.redirect_stderr(buf):
            rc = pytest.main(["-q", "-p", "no:cacheprovider", "--no-header", "-x", "tests"])
    finally:
        os.chdir(cwd)
        MON.metering = False
    ev = MON.drain("prune")
    exits = MON.counters.get("prune.exits", 0) - before.get("prune.exits", 0)
    res = {"idx": 0, "verdict": "held", "tags": ["REPOTESTS"], "key": "repo-tests", "nontrivial": exits > 0,
           "stats": {"repo_test_runs": 1, "repo_tests_prune_exits": exits,
                     "repo_tests_solves": MON.counters.get("alias.solves", 0) - before.get("alias.solves", 0),
                     "repo_tests_rev_events": len(MON.drain("rev")), "repo_tests_alias_events": len(MON.drain("alias"))}}
    tail = buf.getvalue().strip().splitlines()[-1:] or [""]
    res["sample"] = {"repo_tests": tail[0], "pruning_steps_observed": exits}
    if int(rc) != 0:
        res.update(verdict="inconclusive", what="repository tests did not pass under the monitors (rc=%s): %s" % (rc, tail[0]))
    elif ev:
        res.update(verdict="violated", what="during the repository's own tests: " + str(ev[0]["problems"][0])[:200], witness=ev[:2], case={"repo_tests": True})
    return res


def decide(gd, idx, cls, pattern=None):
    n, m = len(gd["players"]), games.n_transitions(gd)
    res = {"idx": idx, "verdict": "held", "stats": {}, "tags": [cls], "key": games.canon_key(gd)}
    an = analysis.Analysis(gd)
    try:
        limit = sc.limit_for(an)
    except Exception:
        limit = monitors.step_limit(n, m, 50)
    out = monitors.observed_solve(games.to_solver(gd), True, limit)
    rec = out.prune_rec
    if rec is None:
        if out.status == "nosol":
            return sc.skipped(idx, "no solution: pruning step not reached")
        res.update(verdict="inconclusive", what="pruning step not observed: %s" % out.brief())
        return res
    st = rec["stats"]
    res["stats"].update({"prune_exits": 1, "removed": st.get("removed", 0), "kept": st.get("kept", 0),
                         "max_renorm_err": st.get("max_renorm_err", 0.0)})
    res["nontrivial"] = st.get("removed", 0) > 0 or bool(rec["problems"])
    if pattern is not None:
        kind, pat = pattern
        res["tags"].append("pat:%s:%s" % ("P1" if kind == P1 else "PR", "".join("L" if x else "D" for x in pat)))
        res["stats"]["pattern_runs"] = 1
    if rec["problems"]:
        p = rec["problems"][0]
        res.update(verdict="violated", what="%s at %s state %s" % (p["problem"], p.get("kind", ""), p.get("state")),
                   witness=rec["problems"][:4], case={"game": games.enc_game(gd)})
    if idx % 400 == 0 and n <= 10:
        res["sample"] = {"class": cls, "game": games.to_solver(gd), "reach": rec["reach"], "after_pruning": rec["after"]}
    return res


def plan(tier, seed):
    from . import threads_common
    return threads_common.plan_threads(tier) + _plan_base(tier, seed)


def run_batch(batch):
    if batch["cls"] == "THREADS":
        from . import threads_common
        yield from threads_common.run(batch, PID, ["pruned_lists"], EMIT_START, 'solve', None)
        return
    monitors.install()
    monitors.MON.flags.update(alias=False)
    cls, seed = batch["cls"], batch["seed"]
    for idx in range(batch["start"], batch["start"] + batch["count"]):
        EMIT_START(idx)
        rng = games.case_rng(seed, PID, cls, idx)
        if cls == "REPOTESTS":
            yield decide_repo_tests()
            continue
        if cls == "G-DEADPAT":
            kind, pat = PATTERNS[idx % len(PATTERNS)]
            gd, _ = games.gen_dead(rng, kind, list(pat))
            yield decide(gd, idx, cls, (kind, pat))
        elif cls == "G-DEADZERO":
            kind, pat = PATTERNS[idx % 62]          # probabilistic patterns only
            gd, _ = games.gen_dead(rng, kind, list(pat), zero_prob=True)
            yield decide(gd, idx, cls, (kind, pat))
        else:
            gd = games.gen_class(rng, cls)
            if gd is None:
                yield sc.skipped(idx, "generator gave up")
                continue
            yield decide(gd, idx, cls)


def finish(agg):
    pats = {k: v for k, v in agg.tags.items() if k.startswith("pat:")}
    return {"patterns_enumerated": len(PATTERNS), "patterns_executed": len(pats),
            "min_executions_per_pattern": min(pats.values()) if pats else 0}


def replay(case):
    if "threads" in case:
        from . import threads_common
        return threads_common.replay(case, PID, ["pruned_lists"], 'solve', None)
    monitors.install()
    if case.get("repo_tests"):
        return decide_repo_tests()
    return decide(games.dec_game(case["game"]), 0, "REPLAY")


if __name__ == "__main__":
    sys.exit(harness.main(sys.modules[__name__]))
