"""Oracle self-tests (DESIGN 6.2): exact oracle vs brute-force enumeration of all deterministic strategy pairs."""
import sys
import time
import random
from fractions import Fraction as F
from . import bootstrap, oracle, games


def run(n_games=150, seed=1, verbose=True):
    rng = random.Random(seed)
    t0 = time.time()
    stats = {"reach_checked": 0, "total_checked": 0, "skipped": 0, "inconclusive": 0}
    classes = ["G-ACY", "G-CYC", "G-EC", "G-DEAD", "G-TIE", "G-SLOW", "G-ACYNF", "G-TIEC", "G-LEX"]
    for i in range(n_games):
        cls = classes[i % len(classes)]
        kw = {"nmax": 7} if cls in ("G-ACY", "G-CYC", "G-EC", "G-ACYNF", "G-SLOW") else {}
        if cls in ("G-TIE",):
            kw = {"nmax": 4}
        gd = games.gen_class(rng, cls, **kw)
        if gd is None:
            stats["skipped"] += 1
            continue
        g = games.to_oracle(gd)
        bf = oracle.brute_force_reach(g, limit=3000)
        if bf is None:
            stats["skipped"] += 1
            continue
        try:
            res = oracle.reach_values(g)
        except oracle.OracleInconclusive:
            stats["inconclusive"] += 1
            continue
        if res["v"] != bf:
            print("SELFTEST FAIL reach", cls, games.enc_game(gd), res["v"], bf)
            return 1
        stats["reach_checked"] += 1
        if oracle.is_stopping(g)[0]:
            bt = oracle.brute_force_total(g, limit=3000)
            if bt is not None:
                tv = oracle.opt_total(g)["v"]
                if tv != bt:
                    print("SELFTEST FAIL total", cls, games.enc_game(gd), tv, bt)
                    return 1
                stats["total_checked"] += 1
    # paper figure 5.5 values (reach 3/4 alfa..., see tests/conftest.py of the repository)
    g = oracle.Game([oracle.P1, oracle.PR, oracle.PR, oracle.P1, oracle.PR, oracle.PR, oracle.PR],
                    [[("beta", 1), ("alfa", 2)], [(F(3, 4), 3), (F(1, 4), 4)], [(F(1, 2), 5), (F(1, 2), 6)],
                     [("delta", 4), ("gamma", 5)], [(1, 4)], [(1, 5)], [(1, 6)]], [5])
    v = oracle.reach_values(g)["v"]
    assert v[0] == F(3, 4) and v[2] == F(1, 2), v
    if verbose:
        print("selftest ok", stats, "%.1fs" % (time.time() - t0))
    if stats["reach_checked"] < n_games // 3:
        print("SELFTEST too few games checked")
        return 1
    return 0


if __name__ == "__main__":
    sys.exit(run(int(sys.argv[1]) if len(sys.argv) > 1 else 150))
