"""Driver: subprocess workers, three-valued verdicts, known-finding classification, evidence, replay.

A check module (vf/checks/cXX.py) provides
  PID, LEVEL ("exploration"), RULE (str), FLOOR (min conclusive cases), REQUIRED (monitor counters that must be >0)
  plan(tier, seed)      -> list of batches  {"cls":..., "start": i, "count": k, ...}   (driver side)
  run_batch(batch)      -> iterator of result dicts                                     (worker side)
  replay(case)          -> result dict                                                  (worker side)
  finish(agg)           -> dict merged into coverage (optional)
Result dict: {"idx", "verdict": held|violated|known|inconclusive|skipped, "what", "finding", "case",
              "nontrivial": bool, "key": str, "stats": {...}, "tags": [...], "sample": {...}}
"""
import argparse
import hashlib
import json
import os
import subprocess
import sys
import threading
import time
import queue
from . import bootstrap

VERIF = bootstrap.VERIF


def worker_cmd(check, dev=False):
    cmd = [bootstrap.PYTHON, "-B", "-X", "faulthandler"]
    if dev:
        cmd += ["-X", "dev", "-W", "error::ResourceWarning"]
    cmd += ["-m", "vf.worker", check]
    return cmd


def load_known(pid):
    path = os.path.join(VERIF, "known_findings.json")
    try:
        data = json.load(open(path))
    except FileNotFoundError:
        return {}
    return {e["mechanism"]: e for e in data.get("findings", []) if e["property"] == pid and e["status"] == "open"}


class Agg:
    def __init__(self):
        self.verdicts = {}
        self.stats = {}
        self.tags = {}
        self.keys = set()
        self.samples = []
        self.violations = []
        self.known = {}
        self.inconclusive = []
        self.counters = {}
        self.crashes = []
        self.per_cls = {}
        self.lock = threading.Lock()

    def add(self, r, cls=None):
        with self.lock:
            v = r.get("verdict", "held")
            self.verdicts[v] = self.verdicts.get(v, 0) + 1
            if cls:
                d = self.per_cls.setdefault(cls, {})
                d[v] = d.get(v, 0) + 1
            for k, x in (r.get("stats") or {}).items():
                if k.startswith("max_"):
                    self.stats[k] = max(self.stats.get(k, x), x)
                elif k.startswith("min_"):
                    self.stats[k] = min(self.stats.get(k, x), x)
                else:
                    self.stats[k] = self.stats.get(k, 0) + x
            for t in r.get("tags") or []:
                self.tags[t] = self.tags.get(t, 0) + 1
            if r.get("nontrivial") and r.get("key") and v in ("held", "violated", "known"):
                self.keys.add(r["key"])
            if r.get("sample") is not None and len(self.samples) < 6:
                self.samples.append(r["sample"])
            if v == "violated":
                self.violations.append(r)
            elif v == "known":
                self.known.setdefault(r.get("finding", "?"), []).append(r)
            elif v == "inconclusive":
                if len(self.inconclusive) < 50:
                    self.inconclusive.append({"idx": r.get("idx"), "cls": cls, "what": r.get("what")})

    def add_counters(self, c):
        with self.lock:
            for k, x in c.items():
                if ".max_" in k:
                    self.counters[k] = max(self.counters.get(k, x), x)
                else:
                    self.counters[k] = self.counters.get(k, 0) + x


def _die_with_parent():
    """Workers must not outlive the driver (PR_SET_PDEATHSIG = 1)."""
    try:
        import ctypes
        import signal
        ctypes.CDLL("libc.so.6", use_errno=True).prctl(1, signal.SIGKILL)
    except Exception:
        pass


def _run_one(check, batch, agg, timeout, dev, requeue):
    t_batch = time.time()
    env = dict(os.environ)
    env.setdefault("PYTHONHASHSEED", "0")
    env["PYTHONPATH"] = VERIF
    if batch.get("env"):
        env.update({k: v for k, v in batch["env"].items() if v != ""})
        for k, v in batch["env"].items():
            if v == "":
                env.pop(k, None)
    p = subprocess.Popen(worker_cmd(check, dev), stdin=subprocess.PIPE, stdout=subprocess.PIPE,
                         stderr=subprocess.PIPE, text=True, cwd=VERIF, env=env, preexec_fn=_die_with_parent)
    inflight = [None]
    done = [False]
    killed = [False]

    def watchdog():
        try:
            p.wait(timeout=timeout)
        except subprocess.TimeoutExpired:
            killed[0] = True
            p.kill()

    th = threading.Thread(target=watchdog, daemon=True)
    th.start()
    try:
        p.stdin.write(json.dumps(batch))
        p.stdin.close()
    except BrokenPipeError:
        pass
    err_chunks = []

    def drain_err():
        for line in p.stderr:
            if len(err_chunks) < 200:
                err_chunks.append(line)

    te = threading.Thread(target=drain_err, daemon=True)
    te.start()
    for line in p.stdout:
        line = line.strip()
        if not line.startswith("{"):
            continue
        try:
            r = json.loads(line)
        except ValueError:
            continue
        if "_start" in r:
            inflight[0] = r["_start"]
        elif "_end" in r:
            done[0] = True
            agg.add_counters(r.get("counters", {}))
        else:
            inflight[0] = None
            r.setdefault("cls", batch.get("cls"))
            agg.add(r, batch.get("cls"))
    p.wait()
    te.join(timeout=5)
    if os.environ.get("VERIF_TIMING"):
        sys.stderr.write("TIMING %7.1fs %s start=%s count=%s env=%s\n" % (time.time() - t_batch, batch.get("cls"), batch.get("start"), batch.get("count"), batch.get("env")))
    if not done[0]:
        stderr_tail = "".join(err_chunks)[-1500:]
        idx = inflight[0]
        why = "wall-clock watchdog (%ds) killed the worker" % timeout if killed[0] else \
              "worker exited with status %s" % p.returncode
        agg.crashes.append({"batch": {k: v for k, v in batch.items() if k != "cases"}, "inflight": idx, "why": why,
                            "killed": killed[0], "returncode": p.returncode, "stderr": stderr_tail})
        if idx is not None and isinstance(idx, int) and "start" in batch:
            rest = batch["start"] + batch["count"] - (idx + 1)
            if rest > 0:
                nb = dict(batch)
                nb["start"], nb["count"] = idx + 1, rest
                requeue(nb)


def run_batches(check, batches, nworkers=None, timeout=900, dev=False):
    agg = Agg()
    nworkers = nworkers or int(os.environ.get("VERIF_WORKERS", "16"))
    q = queue.Queue()
    for b in batches:
        q.put(b)
    pending = [len(batches)]
    lock = threading.Lock()

    def requeue(b):
        with lock:
            pending[0] += 1
        q.put(b)

    def loop():
        while True:
            try:
                b = q.get(timeout=0.2)
            except queue.Empty:
                with lock:
                    if pending[0] <= 0:
                        return
                continue
            try:
                _run_one(check, b, agg, b.get("timeout", timeout), dev, requeue)
            except Exception as e:      # driver-side problem: record, never lose silently
                agg.crashes.append({"batch": {k: v for k, v in b.items() if k != "cases"}, "why": "driver error " + repr(e),
                                    "inflight": None, "killed": False, "returncode": None, "stderr": ""})
            finally:
                with lock:
                    pending[0] -= 1

    threads = [threading.Thread(target=loop, daemon=True) for _ in range(min(nworkers, max(1, len(batches))))]
    for t in threads:
        t.start()
    for t in threads:
        t.join()
    return agg


def split(cls, total, per, **extra):
    """Batches covering indices 0..total-1 of a class."""
    out = []
    i = 0
    while i < total:
        k = min(per, total - i)
        b = {"cls": cls, "start": i, "count": k}
        b.update(extra)
        out.append(b)
        i += k
    return out


def write_evidence(pid, tier, seed, level, coverage, wall, violations, assumptions):
    ev = {"property_id": pid, "tier": tier, "seed": seed, "level": level, "coverage": coverage,
          "assumptions": assumptions, "wall_s": round(wall, 2), "violations": violations}
    path = os.path.join(VERIF, "evidence", pid + ".json")
    if bootstrap.REPO != "/repo":
        # runs against a scratch copy (mutant validation) must not overwrite the evidence of the real tree
        path = os.path.join(VERIF, "evidence", ".scratch", pid + ".json")
    os.makedirs(os.path.dirname(path), exist_ok=True)
    try:
        if bootstrap.deps_on_path():
            import jsonschema
            schema = json.load(open("/root/.vp/EVIDENCE.schema.json")) if os.path.exists("/root/.vp/EVIDENCE.schema.json") else None
            if schema:
                jsonschema.validate(ev, schema)
    except Exception as e:
        print("evidence: schema validation problem:", str(e)[:300])
    with open(path, "w") as f:
        json.dump(ev, f, indent=1, default=str)
    return path


def _jsonable(x):
    return json.loads(json.dumps(x, default=str))


def main(mod):
    ap = argparse.ArgumentParser()
    ap.add_argument("--tier", default=os.environ.get("VERIF_TIER", "quick"), choices=["quick", "thorough"])
    ap.add_argument("--seed", type=int, default=int(os.environ.get("VERIF_SEED", "0")))
    ap.add_argument("--replay", default=None)
    ap.add_argument("--workers", type=int, default=None)
    args = ap.parse_args()
    pid = mod.PID
    check = (mod.__spec__.name if getattr(mod, "__spec__", None) else mod.__name__).split(".")[-1]
    t0 = time.time()
    if getattr(mod, "NEEDS_DEPS", False):
        bootstrap.ensure_deps()
    if args.replay:
        data = json.load(open(args.replay))
        batch = {"replay": data["case"], "cls": data.get("cls"), "start": 0, "count": 1}
        agg = run_batches(check, [batch], nworkers=1, dev=getattr(mod, "DEV", False))
        known = load_known(pid)
        rc = 0
        for r in agg.violations:
            print("VIOLATION property=%s replay=%s" % (pid, os.path.abspath(args.replay)))
            print("  " + str(r.get("what"))[:400])
            rc = 1
        for mech, rs in agg.known.items():
            if mech in known:
                print("KNOWN-FINDING: property=%s %s: %s" % (pid, mech, str(rs[0].get("what"))[:300]))
            else:
                print("VIOLATION property=%s replay=%s" % (pid, os.path.abspath(args.replay)))
                rc = 1
        if agg.crashes:
            print("replay: worker problem", agg.crashes[0]["why"], agg.crashes[0]["stderr"][-400:])
            rc = rc or 2
        if rc == 0:
            print("replay: property held on the recorded case", agg.verdicts)
        return rc

    batches = mod.plan(args.tier, args.seed)
    for i, b in enumerate(batches):
        b.setdefault("tier", args.tier)
        b.setdefault("seed", args.seed)
        # configurations a user can legitimately run the code in: the CLI's DEBUG log level (-l d) and an optimised interpreter
        # (python -O).  A share of the batches runs under each, so that code guarded by the log level or written as an assert
        # is exercised too.  (Monitors and oracles do not depend on either.)
        if not getattr(mod, "NO_ENV_VARIATION", False) and "VERIF_LOGLEVEL" not in (b.get("env") or {}):
            if i % 8 == 2:
                b.setdefault("env", {})["VERIF_LOGLEVEL"] = "DEBUG"
            elif i % 8 == 5:
                b.setdefault("env", {})["PYTHONOPTIMIZE"] = "1"
            elif i % 8 == 7:
                # warnings raised on behalf of the repository's modules become errors (python -W error / pytest filterwarnings=error)
                b.setdefault("env", {})["VERIF_WARNINGS"] = "error"
    # wall-clock watchdog per batch: generous (its firing is 'inconclusive', never a verdict), 4x in the thorough tier
    wd = getattr(mod, "TIMEOUT", 900) * (4 if args.tier == "thorough" else 1)
    for b in batches:
        if "timeout" in b and args.tier == "thorough":
            b["timeout"] *= 4
    agg = run_batches(check, batches, nworkers=args.workers, timeout=wd, dev=getattr(mod, "DEV", False))
    known = load_known(pid)
    # crashes: a check may turn an observed crash into a verdict (e.g. C07 stack overflow)
    crash_inconclusive = []
    for c in agg.crashes:
        conv = getattr(mod, "on_crash", None)
        r = conv(c) if conv else None
        if r is not None:
            agg.add(r, c["batch"].get("cls"))
        else:
            crash_inconclusive.append(c)
    rc = 0
    os.makedirs(os.path.join(VERIF, "replays", pid), exist_ok=True)
    nviol = 0
    printed = 0

    def emit_violation(r):
        nonlocal printed
        name = "%s-%s-%s.json" % (r.get("cls", "x"), r.get("idx", "x"), hashlib.sha1(json.dumps(r.get("case"), default=str, sort_keys=True).encode()).hexdigest()[:10])
        path = os.path.join(VERIF, "replays", pid, name.replace("/", "_"))
        if printed < 25:
            with open(path, "w") as f:
                json.dump({"property": pid, "cls": r.get("cls"), "case": r.get("case"), "what": r.get("what"),
                           "witness": r.get("witness"), "seed": args.seed, "tier": args.tier}, f, indent=1, default=str)
            print("VIOLATION property=%s replay=%s" % (pid, path))
            print("  " + str(r.get("what"))[:400])
            printed += 1

    for r in agg.violations:
        nviol += 1
        emit_violation(r)
    known_hits = {}
    for mech, rs in agg.known.items():
        if mech in known:
            known_hits[mech] = len(rs)
            print("KNOWN-FINDING: property=%s %s: %s (hit %d times in this run; e.g. %s)" % (
                pid, mech, known[mech].get("summary", ""), len(rs), str(rs[0].get("what"))[:200]))
        else:
            for r in rs:
                nviol += 1
                emit_violation(r)
    if nviol:
        rc = 1
    conclusive = sum(agg.verdicts.get(k, 0) for k in ("held", "violated", "known"))
    inconclusive_reasons = []
    if conclusive < getattr(mod, "FLOOR", 1):
        inconclusive_reasons.append("only %d conclusive cases (floor %d)" % (conclusive, getattr(mod, "FLOOR", 1)))
    for cname in getattr(mod, "REQUIRED", []):
        if agg.counters.get(cname, 0) <= 0 and agg.stats.get(cname, 0) <= 0:
            inconclusive_reasons.append("deciding monitor counter %s is 0" % cname)
    if crash_inconclusive:
        inconclusive_reasons.append("%d worker(s) died or were stopped by the wall-clock watchdog: %s" % (
            len(crash_inconclusive), crash_inconclusive[0]["why"]))
    max_inc = getattr(mod, "MAX_INCONCLUSIVE_FRACTION", 0.2)
    ninc = agg.verdicts.get("inconclusive", 0)
    if ninc > max_inc * max(1, conclusive + ninc):
        inconclusive_reasons.append("%d of %d cases inconclusive" % (ninc, conclusive + ninc))
    wall = time.time() - t0
    coverage = {
        "evaluations": conclusive,
        "distinct_nontrivial": len(agg.keys),
        "rule": mod.RULE,
        "samples": _jsonable(agg.samples) or [{"note": "no sample recorded"}],
        "exhaustive": bool(getattr(mod, "EXHAUSTIVE", False)),
        "verdicts": agg.verdicts,
        "per_class": agg.per_cls,
        "observed": {k: (round(v, 6) if isinstance(v, float) else v) for k, v in sorted(agg.stats.items())},
        "tags": dict(sorted(agg.tags.items())),
        "monitor_counters": dict(sorted(agg.counters.items())),
        "known_finding_hits": known_hits,
        "inconclusive_examples": agg.inconclusive[:10],
        "inconclusive_run_reasons": inconclusive_reasons,
        "worker_problems": [{"why": c["why"], "inflight": c["inflight"], "cls": c["batch"].get("cls")} for c in agg.crashes][:10],
        "repo": bootstrap.REPO,
    }
    if hasattr(mod, "finish"):
        try:
            coverage.update(_jsonable(mod.finish(agg)))
        except Exception as e:
            coverage["finish_error"] = repr(e)
    path = write_evidence(pid, args.tier, args.seed, getattr(mod, "LEVEL", "exploration"), coverage, wall, nviol,
                          getattr(mod, "ASSUMPTIONS", []))
    if rc == 0 and inconclusive_reasons:
        print("INCONCLUSIVE property=%s: %s" % (pid, "; ".join(inconclusive_reasons)))
        for c in crash_inconclusive[:3]:
            print("  worker stderr tail:", c["stderr"][-600:].replace("\n", "\n    "))
        rc = 2
    print("%s %s seed=%d: %d conclusive (%s), %d distinct non-trivial, %d violations, known=%s, %.1fs -> %s" % (
        pid, args.tier, args.seed, conclusive, agg.verdicts, len(agg.keys), nviol, known_hits, wall,
        "exit %d" % rc))
    return rc
