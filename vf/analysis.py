"""Offline checkers: compare what the real solver reported with the exact oracle (DESIGN 2, 4).

Everything here works on plain data: the intended game `gd` (Fractions), the pruning flag and the
8-tuple `res` returned by StochasticGame.solve().  Nothing here touches the solver's internals.
"""
from fractions import Fraction as F
from . import oracle, games
from .oracle import P1, P2, PR, OracleInconclusive

DELTA = 1e-6          # the threshold StochasticGame.solve() uses
DIGITS = 6


def eps_fp(v):
    return 1e-9 * max(1.0, abs(float(v)))


class Analysis:
    """Lazy, cached exact facts about one intended game."""

    def __init__(self, gd):
        self.gd = gd
        self.g = games.to_oracle(gd)
        self.n = self.g.n
        self._c = {}

    def _get(self, key, fn):
        if key not in self._c:
            try:
                self._c[key] = ("ok", fn())
            except OracleInconclusive as e:
                self._c[key] = ("inc", str(e))
        st, val = self._c[key]
        if st == "inc":
            raise OracleInconclusive(val)
        return val

    @property
    def reach(self):
        return self._get("reach", lambda: oracle.reach_values(self.g))

    @property
    def W(self):
        return self._get("W", lambda: oracle.positive_set(self.g))

    @property
    def back(self):
        return self._get("back", lambda: oracle.back_reach(self.g))

    @property
    def stopping(self):
        return self._get("stopping", lambda: oracle.is_stopping(self.g)[0])

    @property
    def finals_absorbing(self):
        return all(self.g.absorbing(f) for f in self.g.finals)

    @property
    def cyclic(self):
        return self._get("cyclic", lambda: oracle.has_cycle(self.g))

    @property
    def tmax(self):
        """Exact T_max per state (stopping games only)."""
        return self._get("tmax", lambda: oracle.expected_steps_max(self.g))

    def exact_conditioned(self, prune):
        """The conditioned game built from the EXACT reachability values (Player 1 restricted to its exact optimal
        actions; with pruning every transition of a Player-1 / probabilistic state into a value-0 state removed and the
        rest rescaled).  The solver's own conditioned game is this one or, after a tie split, a sub-game of it."""
        def build():
            g = self.g
            v = self.reach["v"]
            tl = []
            for s in range(g.n):
                tr = g.tl[s]
                if g.players[s] == P1 and tr:
                    opt = max(v[t] for _, t in tr)
                    tl.append([(a, t) for a, t in tr if v[t] == opt and not (prune and v[t] == 0)])
                elif g.players[s] == PR and prune:
                    live = [(p, t) for p, t in tr if v[t] != 0]
                    if len(live) != len(tr):
                        tot = sum(p for p, _ in live)
                        if tot != 0:
                            live = [(p / tot, t) for p, t in live]
                    tl.append(live)
                else:
                    tl.append(list(tr))
            return oracle.Game(g.players, tl, g.finals, g.rewards)
        return self._get(("excond", prune), build)

    @property
    def tmax_solve(self):
        """Largest expected number of steps any strategy pair can need in the input game or in either conditioned
        game (conditioning rescales probabilities and can make plays longer): what a solve may legitimately need."""
        def compute():
            t = max(self.tmax)
            for prune in (True, False):
                c = self.exact_conditioned(prune)
                if not oracle.is_stopping(c)[0]:
                    raise OracleInconclusive("exact conditioned game is not stopping")
                t = max(t, max(oracle.expected_steps_max(c)))
            return t
        return self._get("tmax_solve", compute)

    def rmax_solve(self, prune):
        """Exact upper bound for every expected reward the solve can legitimately reach (max-max total reward of
        the exact conditioned game for that mode)."""
        def compute():
            c = self.exact_conditioned(prune)
            return max(oracle.opt_total(c, opt1="max", opt2="max")["v"])
        return self._get(("rmax", prune), compute)

    def rmax_tolerant(self, prune, tol=F(3, 2 * 10 ** 6)):
        """Like rmax_solve, but Player 1 may also use actions whose exact value is within 1.5e-6 of the best: the solver compares
        reachability values after rounding to 6 digits, so its own restricted game can contain such actions (a SUPER-game of the
        exact conditioned game).  None if that game is not stopping (no finite bound exists)."""
        def compute():
            g = self.g
            v = self.reach["v"]
            tl = []
            for s in range(g.n):
                tr = g.tl[s]
                if g.players[s] == P1 and tr:
                    opt = max(v[t] for _, t in tr)
                    tl.append([(a, t) for a, t in tr if v[t] >= opt - tol and not (prune and v[t] == 0)])
                elif g.players[s] == PR and prune:
                    live = [(p, t) for p, t in tr if v[t] != 0]
                    if len(live) != len(tr):
                        tot = sum(p for p, _ in live)
                        if tot != 0:
                            live = [(p / tot, t) for p, t in live]
                    tl.append(live)
                else:
                    tl.append(list(tr))
            c = oracle.Game(g.players, tl, g.finals, g.rewards)
            if not oracle.is_stopping(c)[0]:
                return None
            return max(oracle.opt_total(c, opt1="max", opt2="max")["v"])
        return self._get(("rmaxtol", prune), compute)

    def reach_T(self, x):
        """Per-state bound T(s) with v*(s)-x(s) <= delta*T(s): T_max in stopping games, otherwise the
        expected number of steps in W minus finals of the chain (sigma*, tau_x); None if unavailable."""
        if self.stopping:
            return [float(t) for t in self.tmax]
        key = ("reachT", tuple(round(v, 9) for v in x))
        if key in self._c:
            return self._c[key]
        r = self.reach
        choice = dict(r["sigma"])
        for s in range(self.n):
            tr = self.g.tl[s]
            if self.g.players[s] == P2 and tr:
                choice[s] = min(range(len(tr)), key=lambda i: (x[tr[i][1]], i))
            elif self.g.players[s] == P1 and tr and s not in choice:
                choice[s] = 0
        U = [s for s in r["W"] if s not in self.g.finals]
        T = oracle.chain_steps(self.g, choice, U)
        out = None if T is None else [float(t) for t in T]
        self._c[key] = out
        return out


# ----------------------------------------------------------------------------- C01

def check_probabilities(an, x, threshold=DELTA):
    """Returns (problems, stats).  problems: list of dicts; stats: observed ratios."""
    g = an.g
    problems = []
    stats = {"states": 0, "max_err_over_band": 0.0, "tol_inconclusive": 0, "max_T": 0.0}
    if not isinstance(x, list) or len(x) != g.n:
        return [{"problem": "probability vector has wrong shape", "got": repr(x)[:200]}], stats
    v = an.reach["v"]
    T = an.reach_T(x)
    back = an.back
    for s in range(g.n):
        xs = x[s]
        if not isinstance(xs, (int, float)) or isinstance(xs, bool) or xs != xs:
            problems.append({"state": s, "problem": "not a number", "got": repr(xs)})
            continue
        stats["states"] += 1
        if s in g.finals:
            if xs != 1:
                problems.append({"state": s, "problem": "final state does not report exactly 1", "got": xs})
            continue
        if s not in back:
            if xs != 0:
                problems.append({"state": s, "problem": "state with no path to a final does not report exactly 0", "got": xs})
            continue
        vs = float(v[s])
        e = eps_fp(vs)
        if xs > vs + e:
            problems.append({"state": s, "problem": "reported probability exceeds the true value",
                             "got": xs, "true": str(v[s]), "excess": xs - vs})
            continue
        if v[s] == 0:
            continue
        if T is None:
            stats["tol_inconclusive"] += 1
            continue
        band = threshold * max(T[s], 1.0)
        stats["max_T"] = max(stats["max_T"], T[s])
        err = vs - xs
        stats["max_err_over_band"] = max(stats["max_err_over_band"], err / band)
        if err > band + e:
            problems.append({"state": s, "problem": "reported probability below the true value by more than the convergence tolerance",
                             "got": xs, "true": str(v[s]), "shortfall": err, "band": band, "T": T[s]})
    return problems, stats


# ----------------------------------------------------------------------------- conditioned game (2.2)

def conditioned_game(gd, reach_strats, probs, prune):
    """The conditioned game, built from the input + what the solver REPORTED (never its internal lists)."""
    tl = []
    for s, tr in enumerate(gd["transition_list"]):
        owner = gd["players"][s]
        if owner == P1:
            strat = reach_strats[s] if reach_strats[s] is not None else []
            new = [(a, t) for a, t in tr if a in strat and not (prune and probs[t] == 0)]
        elif owner == PR:
            if prune:
                live = [(p, t) for p, t in tr if probs[t] != 0]
                if len(live) != len(tr):
                    tot = sum(p for p, _ in live)
                    if tot != 0:             # surviving mass 0: only zero-probability branches are left, nothing to rescale
                        live = [(p / tot, t) for p, t in live]
                new = live
            else:
                new = list(tr)
        else:
            new = list(tr)
        tl.append(new)
    out = dict(gd)
    out["transition_list"] = tl
    return out


class Conditioned:
    def __init__(self, gd, res, prune):
        self.prune = prune
        self.cgd = conditioned_game(gd, res[1], res[3], prune)
        g = games.to_oracle(self.cgd)
        self.closure = oracle.reachable_from(g, 0)
        if prune:
            scope = self.closure
            # states outside the closure cannot influence it: make them terminal for the oracle
            for s in range(g.n):
                if s not in scope:
                    g.tl[s] = []
        else:
            scope = set(range(g.n))
        self.scope = scope
        self.g = g
        self._c = {}

    def _get(self, key, fn):
        if key not in self._c:
            try:
                self._c[key] = ("ok", fn())
            except OracleInconclusive as e:
                self._c[key] = ("inc", str(e))
        st, val = self._c[key]
        if st == "inc":
            raise OracleInconclusive(val)
        return val

    @property
    def stopping(self):
        return self._get("stopping", lambda: oracle.is_stopping(self.g)[0])

    @property
    def values(self):
        return self._get("values", lambda: oracle.opt_total(self.g)["v"])

    @property
    def tmax(self):
        return self._get("tmax", lambda: [float(t) for t in oracle.expected_steps_max(self.g)])


def near_tie_cycle(an, gd, unpruned_res):
    """Mechanism of the open finding 'near-tie-closes-cycle' (C06): the reported reachability strategy of some Player-1 state lists
    an action that is strictly worse than the best one, because the two reported values fall into the same 6-digit rounding cell
    (the resolution at which the solver compares them); with that action kept, pruning the dead branches leaves a game that is no
    longer stopping (a probability-1 cycle), on which the reward iteration cannot converge.
    -> witness dict if all of that holds for this game, else None.  unpruned_res: any tuple whose [1] / [3] are the reachability
    strategies / probabilities the solver reported (a finished unpruned solve, or the record of the pruning-step hook)."""
    strat, x = unpruned_res[1], unpruned_res[3]
    v = an.reach["v"]
    extra = []
    for s in range(an.n):
        if gd["players"][s] != P1 or not isinstance(strat[s], list):
            continue
        tr = gd["transition_list"][s]
        best = max(v[t] for _, t in tr)
        top_cell = max(round(x[t], DIGITS) for _, t in tr)
        for a, t in tr:
            if a in strat[s] and v[t] < best:
                if round(x[t], DIGITS) != top_cell or float(best - v[t]) > 1.5e-6:
                    return None                       # listed although visibly worse: not this mechanism
                extra.append({"state": s, "action": a, "exact_gap": float(best - v[t]), "reported": x[t]})
    if not extra:
        return None
    cond = Conditioned(gd, unpruned_res, True)
    try:
        if cond.stopping:
            return None
        exact = an.exact_conditioned(True)
        if not oracle.is_stopping(exact)[0]:
            return None
    except OracleInconclusive:
        return None
    return {"near_tied_actions": extra[:3]}


def bellman_residuals(cond, rew):
    """|rew(s) - (B_cond rew)(s)| in floats for in-scope states."""
    g = cond.g
    out = {}
    for s in cond.scope:
        tr = g.tl[s]
        if not tr:
            want = 0.0
        elif g.players[s] == PR:
            want = float(g.rewards[s]) + sum(float(p) * rew[t] for p, t in tr)
        elif g.players[s] == P1:
            want = float(g.rewards[s]) + max(rew[t] for _, t in tr)
        else:
            want = float(g.rewards[s]) + min(rew[t] for _, t in tr)
        out[s] = abs(rew[s] - want)
    return out


def check_rewards(gd, res, prune, value_form=True):
    """C02.  Returns (problems, stats, mode, cond) with mode in value|residual|none."""
    cond = Conditioned(gd, res, prune)
    rew = res[2]
    problems = []
    stats = {"states": 0, "max_err_over_band": 0.0, "max_T": 0.0, "max_residual": 0.0}
    if not isinstance(rew, list) or len(rew) != cond.g.n or any(not isinstance(r, (int, float)) or r != r for r in rew):
        return [{"problem": "reward vector has wrong shape or non-numbers", "got": repr(rew)[:200]}], stats, "none", cond
    mode = "residual"
    if value_form and cond.stopping:
        mode = "value"
        V = cond.values
        T = cond.tmax
        for s in sorted(cond.scope):
            stats["states"] += 1
            band = DELTA * max(T[s], 1.0)
            err = abs(rew[s] - float(V[s]))
            stats["max_T"] = max(stats["max_T"], T[s])
            stats["max_err_over_band"] = max(stats["max_err_over_band"], err / band)
            if err > band + eps_fp(V[s]):
                problems.append({"state": s, "problem": "expected reward differs from the conditioned game's max-min value",
                                 "got": rew[s], "true": str(V[s]), "err": err, "band": band})
    else:
        res_ = bellman_residuals(cond, rew)
        for s, r in res_.items():
            stats["states"] += 1
            stats["max_residual"] = max(stats["max_residual"], r)
            if r > DELTA + eps_fp(rew[s]):
                problems.append({"state": s, "problem": "expected reward is not a fixed point of the conditioned reward equations",
                                 "got": rew[s], "residual": r})
    return problems, stats, mode, cond


# ----------------------------------------------------------------------------- C04

def sep_gap(Ta, Tb):
    return 2 * DELTA * max(Ta, Tb, 1.0) + 2e-6


def check_reach_strategies(an, res):
    """C04 on one result.  Returns (problems, known, stats).
    known: list of tie-split findings (reported list is a non-empty subset of the exact optimal set, each
    omitted action is an exact tie whose reported float differs from the listed ones')."""
    g = an.g
    strat = res[1]
    x = res[3]
    problems, known = [], []
    stats = {"player_states": 0, "in_scope": 0, "skipped_precondition": 0, "tie_states": 0, "multi_action_p2": 0,
             "all_zero_states": 0}
    if not isinstance(strat, list) or len(strat) != g.n:
        return [{"problem": "strategy list has wrong shape"}], known, stats
    v = an.reach["v"]
    T = an.reach_T(x)
    for s in range(g.n):
        tr = g.tl[s]
        if g.players[s] == PR:
            if strat[s] is not None:
                problems.append({"state": s, "problem": "probabilistic state has a strategy", "got": strat[s]})
            continue
        stats["player_states"] += 1
        if strat[s] is None or not isinstance(strat[s], list):
            problems.append({"state": s, "problem": "player state without a strategy list", "got": repr(strat[s])})
            continue
        labels = [a for a, _ in tr]
        # order / duplicates / unknown labels (independent of any tolerance): the list must be a subsequence of the state's labels
        it = iter(labels)
        is_subseq = all(any(a == b for b in it) for a in strat[s])
        if not is_subseq:
            problems.append({"state": s, "problem": "strategy not a duplicate-free subsequence of the transition order",
                             "got": strat[s], "labels": labels})
            continue
        vals = [v[t] for _, t in tr]
        opt = max(vals) if g.players[s] == P1 else min(vals)
        in_scope = True
        if T is None and len(set(vals)) > 1:
            in_scope = False
        else:
            for i in range(len(tr)):
                for j in range(i + 1, len(tr)):
                    if vals[i] != vals[j]:
                        gap = sep_gap(T[tr[i][1]], T[tr[j][1]]) if T is not None else None
                        if abs(float(vals[i] - vals[j])) <= gap:
                            in_scope = False
        if not in_scope:
            stats["skipped_precondition"] += 1
            continue
        stats["in_scope"] += 1
        expected = [a for (a, _), val in zip(tr, vals) if val == opt]
        if len(expected) > 1:
            stats["tie_states"] += 1
        if all(val == 0 for val in vals):
            stats["all_zero_states"] += 1
        if g.players[s] == P2 and len(tr) >= 2:
            stats["multi_action_p2"] += 1
        if strat[s] == expected:
            continue
        got = strat[s]
        w = {"state": s, "owner": g.players[s], "got": got, "expected": expected,
             "exact_values": [str(val) for val in vals], "reported": [x[t] for _, t in tr]}
        # open finding (by mechanism, position-wise so that repeated labels are handled): the solver lists exactly the transitions
        # whose REPORTED value, rounded to 6 digits, is best; all of them are truly optimal; but at least one truly optimal
        # transition is missing because its reported float rounds to another cell
        rounded = [round(x[t], DIGITS) for _, t in tr]
        best = max(rounded) if g.players[s] == P1 else min(rounded)
        R = [i for i in range(len(tr)) if rounded[i] == best]
        if got and [labels[i] for i in R] == got and all(vals[i] == opt for i in R) and any(vals[i] == opt and i not in R for i in range(len(tr))):
            w["problem"] = "exact tie split: optimal action omitted because the converged floats round to different cells"
            known.append(w)
            continue
        w["problem"] = "reachability strategy is not the set of value-optimal actions"
        problems.append(w)
    return problems, known, stats


# ----------------------------------------------------------------------------- C05

def check_final_inclusion(gd, res):
    problems = []
    n = len(gd["players"])
    fin, rs = res[0], res[1]
    k = 0
    for s in range(n):
        if gd["players"][s] == P1:
            k += 1
            if not isinstance(fin[s], list) or not isinstance(rs[s], list):
                problems.append({"state": s, "problem": "Player 1 state without strategy lists"})
            elif any(a not in rs[s] for a in fin[s]):
                problems.append({"state": s, "problem": "final strategy uses an action outside the reachability strategy",
                                 "final": fin[s], "reach": rs[s]})
    return problems, k


def check_final_sets(gd, res, prune, cond, acyclic):
    """C05(b): exact reward-optimal sets at in-scope states reachable from 0 in the conditioned game."""
    g = cond.g
    fin = res[0]
    problems = []
    stats = {"checked": 0, "skipped_precondition": 0, "tie_states": 0, "lex_states": 0, "p2_checked": 0}
    V = cond.values
    T = cond.tmax
    orig_tl = gd["transition_list"]
    for s in sorted(cond.closure):
        tr = g.tl[s]
        if g.players[s] == PR:
            if fin[s] is not None:
                problems.append({"state": s, "problem": "probabilistic state has a final strategy", "got": fin[s]})
            continue
        if not tr:
            continue
        vals = [V[t] for _, t in tr]
        ok = True
        for i in range(len(tr)):
            for j in range(i + 1, len(tr)):
                if vals[i] == vals[j]:
                    if not acyclic and vals[i] != 0:
                        ok = False      # cyclic games: exact non-zero ties are outside the property's claim
                else:
                    if abs(float(vals[i] - vals[j])) <= sep_gap(T[tr[i][1]], T[tr[j][1]]):
                        ok = False
        if not ok:
            stats["skipped_precondition"] += 1
            continue
        opt = max(vals) if g.players[s] == P1 else min(vals)
        expected = [a for (a, _), val in zip(tr, vals) if val == opt]
        stats["checked"] += 1
        if len(expected) > 1:
            stats["tie_states"] += 1
        if g.players[s] == P2:
            stats["p2_checked"] += 1
        else:
            # non-trivial: the best-reward original action was not permitted (not reachability-optimal / dead)
            if len(orig_tl[s]) > len(tr):
                stats["lex_states"] += 1
        if fin[s] != expected:
            problems.append({"state": s, "owner": g.players[s], "problem": "final strategy is not the set of reward-optimal permitted actions",
                             "got": fin[s], "expected": expected, "exact_rewards": [str(val) for val in vals],
                             "reported": [res[2][t] for _, t in tr]})
    return problems, stats


# ----------------------------------------------------------------------------- C14

def check_diagnostics(gd, res, prune, cond):
    """C14.  Returns (problems, stats, in_scope: bool, why)."""
    g = cond.g
    fin, rs = res[0], res[1]
    stats = {"closure_states": 0, "p2_multi_reach_min": 0, "diag6_differs_from_prob": 0, "diag7_differs_from_rew": 0,
             "max_err_over_band6": 0.0, "max_err_over_band7": 0.0}
    V = cond.values
    T = cond.tmax
    # scope: no reward ties at closure states
    for s in cond.closure:
        tr = g.tl[s]
        if g.players[s] == PR or len(tr) < 2:
            continue
        vals = [V[t] for _, t in tr]
        for i in range(len(tr)):
            for j in range(i + 1, len(tr)):
                if abs(float(vals[i] - vals[j])) <= sep_gap(T[tr[i][1]], T[tr[j][1]]):
                    return [], stats, False, "reward tie at a reachable state"
    choice = {}
    for s in cond.closure:
        tr = g.tl[s]
        if g.players[s] == PR or not tr:
            continue
        if not isinstance(fin[s], list) or len(fin[s]) != 1:
            return [], stats, False, "final strategy not a single action at state %d" % s
        labs = [a for a, _ in tr]
        if fin[s][0] not in labs:
            return [{"state": s, "problem": "final strategy names an action the conditioned game does not have",
                     "got": fin[s], "labels": labs}], stats, True, ""
        choice[s] = labs.index(fin[s][0])
    # chain restricted to the closure (other states terminal)
    sub = oracle.Game(g.players, [g.tl[s] if s in cond.closure else [] for s in range(g.n)], g.finals, g.rewards)
    full_choice = {s: choice.get(s, 0) for s in range(g.n) if g.players[s] != PR and sub.tl[s]}
    r6 = oracle.chain_reach(sub, full_choice)
    allowed = {}
    for s in cond.closure:
        tr = sub.tl[s]
        if g.players[s] == P1 and tr:
            allowed[s] = [choice[s]]
        elif g.players[s] == P2 and tr:
            labs = [a for a, _ in tr]
            idxs = [i for i, a in enumerate(labs) if a in (rs[s] or [])]
            if not idxs:
                return [{"state": s, "problem": "Player 2 state without reported reachability-minimal action"}], stats, True, ""
            allowed[s] = idxs
            if len(idxs) >= 2:
                stats["p2_multi_reach_min"] += 1
    r7 = oracle.opt_total(sub, opt1="max", opt2="min", allowed=allowed)["v"]
    problems = []
    d6, d7 = res[6], res[7]
    for s in sorted(cond.closure):
        stats["closure_states"] += 1
        band = DELTA * max(T[s], 1.0)
        e6 = abs(d6[s] - float(r6[s]))
        e7 = abs(d7[s] - float(r7[s]))
        stats["max_err_over_band6"] = max(stats["max_err_over_band6"], e6 / band)
        stats["max_err_over_band7"] = max(stats["max_err_over_band7"], e7 / band)
        if abs(float(r6[s]) - res[3][s]) > 1e-4:
            stats["diag6_differs_from_prob"] += 1
        if abs(float(r7[s]) - res[2][s]) > 1e-4:
            stats["diag7_differs_from_rew"] += 1
        if e6 > band + eps_fp(r6[s]):
            problems.append({"state": s, "problem": "'probabilities under minimal reward' differs from the chain of final strategies",
                             "got": d6[s], "true": str(r6[s]), "band": band})
        if e7 > band + eps_fp(r7[s]):
            problems.append({"state": s, "problem": "'rewards under minimal reachability' differs from the min-cost play of Player 2's reachability strategy",
                             "got": d7[s], "true": str(r7[s]), "band": band})
    if prune and 0 in cond.closure:
        if abs(d6[0] - 1.0) > DELTA * max(T[0], 1.0) + 1e-9:
            problems.append({"state": 0, "problem": "'probabilities under minimal reward' is not 1 at the initial state with pruning on", "got": d6[0]})
    return problems, stats, True, ""
