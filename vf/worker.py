"""Worker process: python -m vf.worker <check>  with one JSON batch on stdin; one JSON line per case on stdout."""
import importlib
import json
import sys
import faulthandler
from . import bootstrap


def main():
    check = sys.argv[1]
    batch = json.loads(sys.stdin.read())
    faulthandler.enable()
    mod = importlib.import_module("vf.checks." + check)
    if getattr(mod, "NEEDS_DEPS", False):
        bootstrap.ensure_deps()
    out = sys.stdout

    def emit(obj):
        out.write(json.dumps(obj, default=str) + "\n")
        out.flush()

    mod.EMIT_START = lambda idx: emit({"_start": idx})
    if "replay" in batch:
        emit({"_start": 0})
        r = mod.replay(batch["replay"])
        r.setdefault("idx", 0)
        emit(r)
    else:
        for r in mod.run_batch(batch):
            emit(r)
    from . import monitors
    emit({"_end": True, "counters": monitors.MON.counters})


if __name__ == "__main__":
    main()
