"""MANIFEST.setup_cmd: offline install of numpy/scipy/jsonschema into /verif/.deps and oracle self-tests."""
import sys
from . import bootstrap


def main():
    bootstrap.ensure_deps(verbose=True)
    from . import selftest
    rc = selftest.run(240, seed=7)
    if rc:
        return rc
    # bisimulation checker on hand-made pairs
    from . import roborta_model as rm
    A = ({0: ("Probabilistic", 0, [(0.5, 1), (0.5, 2)]), 1: ("Probabilistic", 0, [(1, 1)]), 2: ("Probabilistic", 0, [(1, 2)])}, 0, {1})
    B = ({0: ("Probabilistic", 0, [(0.25, 1), (0.25, 3), (0.5, 2)]), 1: ("Probabilistic", 0, [(1, 1)]), 3: ("Probabilistic", 0, [(1, 3)]),
          2: ("Probabilistic", 0, [(1, 2)])}, 0, {1, 3})
    C = ({0: ("Probabilistic", 0, [(0.4, 1), (0.6, 2)]), 1: ("Probabilistic", 0, [(1, 1)]), 2: ("Probabilistic", 0, [(1, 2)])}, 0, {1})
    assert rm.bisimilar(A, B)[0] and not rm.bisimilar(A, C)[0]
    print("setup ok")
    return 0


if __name__ == "__main__":
    sys.exit(main())
