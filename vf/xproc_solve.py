"""python -B -m vf.xproc_solve : solve the games given on stdin (JSON list of encoded descriptions) with the real code in THIS
interpreter process and print, per game, the repr of what solve() returned in both pruning modes and of the run_games entries.
Used by C10's XPROC class to compare one interpreter process with another (string hashing, id()s and allocation order differ)."""
import json
import signal
import sys
from . import bootstrap

bootstrap.repo_on_path()


def main():
    import logging
    logging.disable(logging.CRITICAL)
    import tad
    import conditionalrewards as cr
    from . import games
    per_game = float(sys.argv[1]) if len(sys.argv) > 1 else 20.0
    out = []

    def alarm(*a):
        raise TimeoutError("wall clock")

    signal.signal(signal.SIGALRM, alarm)
    for enc in json.loads(sys.stdin.read()):
        desc = games.to_solver(games.dec_game(enc))
        rec = {}
        for prune in (True, False):
            signal.setitimer(signal.ITIMER_REAL, per_game)
            try:
                d = games.to_solver(games.dec_game(enc))
                rec["solve_%s" % prune] = repr(tad.StochasticGame(d["rewards"], d["players"], d["transition_list"], d["final_states"],
                                                                  prune_states=prune).solve())
            except TimeoutError:
                rec["solve_%s" % prune] = "TIMEOUT"
            except ValueError as e:
                rec["solve_%s" % prune] = "ValueError: %s" % e
            finally:
                signal.setitimer(signal.ITIMER_REAL, 0)
        signal.setitimer(signal.ITIMER_REAL, 2 * per_game)
        try:
            res = cr.run_games({"g": desc})
            rec["run_games"] = repr({k: {f: v for f, v in e.items() if f != "total_time"} for k, e in res.items()})
        except TimeoutError:
            rec["run_games"] = "TIMEOUT"
        finally:
            signal.setitimer(signal.ITIMER_REAL, 0)
        out.append(rec)
    sys.stdout.write(json.dumps(out))


if __name__ == "__main__":
    main()
