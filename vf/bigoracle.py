"""Float-certified oracle for board-sized games (DESIGN 2.5): numpy / scipy.sparse linear solves on the induced
chain, Bellman equalities checked to 1e-10, zero sets by the exact graph algorithms of oracle.py.
Independent of the solver under test (policy iteration + direct solves, no Gauss-Seidel sweeps shared)."""
from . import bootstrap

bootstrap.ensure_deps()
import numpy as np                      # noqa: E402
import scipy.sparse as sp               # noqa: E402
import scipy.sparse.linalg as spla      # noqa: E402
from . import oracle                    # noqa: E402
from .oracle import P1, P2, PR, OracleInconclusive   # noqa: E402

TOL = 1e-10


class BigGame:
    def __init__(self, game):
        """game: solver-style dict (floats)."""
        self.players = list(game["players"])
        self.tl = [list(t) for t in game["transition_list"]]
        self.finals = set(game["final_states"])
        self.rewards = [float(r) for r in game["rewards"]]
        self.n = len(self.players)
        # structure-only view for the exact graph algorithms
        self.graph = oracle.Game(self.players, self.tl, self.finals, [0] * self.n)     # graph algorithms only (zero-probability branches are not edges)


def _chain_matrix(bg, choice, rows_idx):
    """Sparse matrix of the chain restricted to rows_idx (list of states) over all columns."""
    r, c, d = [], [], []
    for i, s in enumerate(rows_idx):
        tr = bg.tl[s]
        if not tr:
            continue
        if bg.players[s] == PR:
            for p, t in tr:
                r.append(i); c.append(t); d.append(float(p))
        else:
            r.append(i); c.append(tr[choice[s]][1]); d.append(1.0)
    return sp.csr_matrix((d, (r, c)), shape=(len(rows_idx), bg.n))


def _chain_can_reach(bg, choice, targets):
    pred = [[] for _ in range(bg.n)]
    for s in range(bg.n):
        if s in targets:
            continue
        tr = bg.tl[s]
        if not tr:
            continue
        if bg.players[s] == PR:
            for p, t in tr:
                if p > 0:
                    pred[t].append(s)
        else:
            pred[tr[choice[s]][1]].append(s)
    seen = set(targets)
    stack = list(seen)
    while stack:
        v = stack.pop()
        for u in pred[v]:
            if u not in seen:
                seen.add(u)
                stack.append(u)
    return seen


def chain_reach(bg, choice):
    can = _chain_can_reach(bg, choice, bg.finals)
    U = sorted(s for s in can if s not in bg.finals)
    x = np.zeros(bg.n)
    for f in bg.finals:
        x[f] = 1.0
    if U:
        P = _chain_matrix(bg, choice, U)
        b = P @ x
        A = sp.identity(len(U), format="csc") - P[:, U].tocsc()
        sol = spla.spsolve(A, b)
        if not np.all(np.isfinite(sol)):
            raise OracleInconclusive("singular float reach chain")
        x[U] = sol
    return x


def _float_vi(bg, W, sweeps=3000):
    x = [1.0 if s in bg.finals else 0.0 for s in range(bg.n)]
    order = [s for s in range(bg.n) if s in W and s not in bg.finals]
    for _ in range(sweeps):
        diff = 0.0
        for s in order:
            tr = bg.tl[s]
            if bg.players[s] == PR:
                v = 0.0
                for p, t in tr:
                    v += p * x[t]
            elif bg.players[s] == P1:
                v = max(x[t] for _, t in tr)
            else:
                v = min(x[t] for _, t in tr)
            d = abs(v - x[s])
            if d > diff:
                diff = d
            x[s] = v
        if diff < 1e-13:
            break
    return x


def reach_values(bg, max_rounds=30):
    g = bg.graph
    W = oracle.positive_set(g)
    rank = oracle._attractor_rank(g, W)
    x = _float_vi(bg, W)
    choice = {}
    for s in range(bg.n):
        tr = bg.tl[s]
        if not tr or bg.players[s] == PR:
            continue
        if bg.players[s] == P1:
            best = max(x[t] for _, t in tr)
            cands = [i for i, (_, t) in enumerate(tr) if x[t] >= best - 1e-9]
            choice[s] = min(cands, key=lambda i: (rank.get(tr[i][1], 10 ** 9), i))
            if s in W and tr[choice[s]][1] not in W:
                choice[s] = min(range(len(tr)), key=lambda i: (rank.get(tr[i][1], 10 ** 9), i))
        else:
            best = min(x[t] for _, t in tr)
            cands = [i for i, (_, t) in enumerate(tr) if x[t] <= best + 1e-9]
            choice[s] = min(cands, key=lambda i: (0 if tr[i][1] not in W else 1, i))
    for rounds in range(max_rounds):
        v = chain_reach(bg, choice)
        switched = False
        for s in choice:
            tr = bg.tl[s]
            if s in bg.finals:
                continue
            cur = v[tr[choice[s]][1]]
            bi, bv = choice[s], cur
            for i, (_, t) in enumerate(tr):
                if bg.players[s] == P1 and v[t] > bv + TOL:
                    bi, bv = i, v[t]
                elif bg.players[s] == P2 and v[t] < bv - TOL:
                    bi, bv = i, v[t]
            if bi != choice[s]:
                choice[s] = bi
                switched = True
        if switched:
            continue
        ok = True
        for s in range(bg.n):
            tr = bg.tl[s]
            if s in bg.finals:
                ok &= v[s] == 1.0
            elif not tr:
                ok &= v[s] == 0.0
            elif bg.players[s] == PR:
                ok &= abs(v[s] - sum(p * v[t] for p, t in tr)) <= TOL
            elif bg.players[s] == P1:
                ok &= abs(v[s] - max(v[t] for _, t in tr)) <= TOL
            else:
                ok &= abs(v[s] - min(v[t] for _, t in tr)) <= TOL
        sigma = {s: choice[s] for s in choice if bg.players[s] == P1}
        Wsig = oracle.positive_set(g, sigma)
        # zero set: states outside W are exactly 0 by construction of chain_reach? check explicitly
        zero = {s for s in range(bg.n) if v[s] == 0.0}
        small_pos = [s for s in range(bg.n) if 0 < v[s] < 1e-300]
        ok &= not small_pos
        ok &= (zero == set(range(bg.n)) - Wsig) and (zero == set(range(bg.n)) - W)
        if ok:
            return {"v": v, "W": W, "sigma": sigma, "tau": {s: choice[s] for s in choice if bg.players[s] == P2},
                    "rounds": rounds}
        fixed_any = False
        for s in range(bg.n):
            if bg.players[s] == P1 and s in W and s not in Wsig and bg.tl[s]:
                tr = bg.tl[s]
                cands = [i for i, (_, t) in enumerate(tr) if t in W]
                if cands:
                    ni = min(cands, key=lambda i: (rank.get(tr[i][1], 10 ** 9), i))
                    if ni != choice[s]:
                        choice[s] = ni
                        fixed_any = True
        if not fixed_any:
            break
    raise OracleInconclusive("float reachability certificate not obtained")


def chain_steps(bg, choice, U):
    """Expected number of steps in U for the chain; None if not transient on U."""
    U = sorted(U)
    Uset = set(U)
    outside = set(range(bg.n)) - Uset
    can = _chain_can_reach(bg, choice, outside)
    if not Uset <= can:
        return None
    P = _chain_matrix(bg, choice, U)
    A = sp.identity(len(U), format="csc") - P[:, U].tocsc()
    sol = spla.spsolve(A, np.ones(len(U)))
    if not np.all(np.isfinite(sol)) or np.any(sol < 0):
        return None
    out = np.zeros(bg.n)
    out[U] = sol
    return out


def reach_T(bg, r, x):
    """T(s) for the band v*-x <= delta*T: chain (sigma*, Player 2 greedy w.r.t. the reported x) on W minus finals."""
    choice = dict(r["sigma"])
    for s in range(bg.n):
        tr = bg.tl[s]
        if bg.players[s] == P2 and tr:
            choice[s] = min(range(len(tr)), key=lambda i: (x[tr[i][1]], i))
        elif bg.players[s] == P1 and tr and s not in choice:
            choice[s] = 0
    U = [s for s in r["W"] if s not in bg.finals]
    return chain_steps(bg, choice, U)
